package props

import (
	"runtime"
	"strings"
	"time"

	"godsverif/core"

	"github.com/emirpasic/gods/v2/containers"
	"github.com/emirpasic/gods/v2/lists/arraylist"
	"github.com/emirpasic/gods/v2/lists/doublylinkedlist"
	"github.com/emirpasic/gods/v2/lists/singlylinkedlist"
	"github.com/emirpasic/gods/v2/queues/arrayqueue"
	"github.com/emirpasic/gods/v2/queues/circularbuffer"
	"github.com/emirpasic/gods/v2/queues/linkedlistqueue"
	"github.com/emirpasic/gods/v2/stacks/arraystack"
	"github.com/emirpasic/gods/v2/stacks/linkedliststack"
)

// Huge linear containers: a few hundred thousand elements in the lists, stacks,
// queues and a ring of that capacity. The content is known by construction
// (element i is 6*i), so no model is needed. What gives out at this scale:
// recursion per element, quadratic helpers that were fine at 300 elements,
// int32 indices, growth arithmetic in float32.
const hugeLinearKinds = 8

func hugeLinearN(tier string) int {
	if tier == "thorough" {
		return 2000000
	}
	return 300000
}

// runHugeLinear builds container number h with n elements and checks it
// through the operations that are linear or better.
func runHugeLinear(c *core.Ctx, h, n int) {
	val := func(i int) int { return 6 * i }
	type lin struct {
		name    string
		cont    containers.Container[int]
		put     func(v int)
		takeOne func() (int, bool) // nil for lists
		first   func() (int, bool) // element that comes out / sits at index 0
		lifo    bool
	}
	var x lin
	switch h % hugeLinearKinds {
	case 0:
		l := arraylist.New[int]()
		x = lin{name: "ArrayList", cont: l, put: func(v int) { l.Add(v) }, first: func() (int, bool) { return l.Get(0) }}
	case 1:
		l := singlylinkedlist.New[int]()
		x = lin{name: "SinglyLinkedList", cont: l, put: func(v int) { l.Add(v) }, first: func() (int, bool) { return l.Get(0) }}
	case 2:
		l := doublylinkedlist.New[int]()
		x = lin{name: "DoublyLinkedList", cont: l, put: func(v int) { l.Add(v) }, first: func() (int, bool) { return l.Get(0) }}
	case 3:
		s := arraystack.New[int]()
		x = lin{name: "ArrayStack", cont: s, put: s.Push, takeOne: s.Pop, first: s.Peek, lifo: true}
	case 4:
		s := linkedliststack.New[int]()
		x = lin{name: "LinkedListStack", cont: s, put: s.Push, takeOne: s.Pop, first: s.Peek, lifo: true}
	case 5:
		q := arrayqueue.New[int]()
		x = lin{name: "ArrayQueue", cont: q, put: q.Enqueue, takeOne: q.Dequeue, first: q.Peek}
	case 6:
		q := linkedlistqueue.New[int]()
		x = lin{name: "LinkedListQueue", cont: q, put: q.Enqueue, takeOne: q.Dequeue, first: q.Peek}
	default:
		q := circularbuffer.New[int](n)
		x = lin{name: "CircularBuffer", cont: q, put: q.Enqueue, takeOne: q.Dequeue, first: q.Peek}
	}
	c.Begin(x.name, "build", n)
	for i := 0; i < n; i++ {
		x.put(val(i))
	}
	lo, hi := 0, n // live elements are val(lo..hi-1)
	check := func(when string) {
		c.Begin(x.name, "checkpoint", when, hi-lo)
		if sz := x.cont.Size(); sz != hi-lo {
			c.Fail("size", "huge", "%s with %d elements (%s): Size() = %d", x.name, hi-lo, when, sz)
		}
		if e := x.cont.Empty(); e != (hi == lo) {
			c.Fail("empty", "huge", "%s with %d elements: Empty() = %v", x.name, hi-lo, e)
		}
		vs := x.cont.Values()
		if len(vs) != hi-lo {
			c.Fail("values", "huge-length", "%s with %d elements (%s): len(Values()) = %d", x.name, hi-lo, when, len(vs))
		}
		for j := range vs {
			want := val(lo + j)
			if x.lifo {
				want = val(hi - 1 - j)
			}
			if vs[j] != want {
				c.Fail("values", "huge-content", "%s with %d elements (%s): Values()[%d] = %d, want %d", x.name, hi-lo, when, j, vs[j], want)
			}
		}
		if f, ok := x.first(); hi > lo {
			want := val(lo)
			if x.lifo {
				want = val(hi - 1)
			}
			if !ok || f != want {
				c.Fail("first", "huge", "%s with %d elements: first element = (%d,%v), want %d", x.name, hi-lo, f, ok, want)
			}
		} else if ok {
			c.Fail("first", "huge-empty", "%s empty: first element = (%d,true)", x.name, f)
		}
		if s := x.cont.String(); !strings.HasPrefix(s, x.name) {
			c.Fail("string", "prefix", "%s.String() of %d elements does not begin with its name", x.name, hi-lo)
		}
		c.Count("obs:huge-linear-checkpoints", 1)
	}
	check("fully grown")
	if x.takeOne != nil {
		// remove two thirds one by one (crossing every shrink threshold); the
		// array queue deletes at the front of a slice, which is linear per call
		// by design, so it only gives up 3000 elements
		take := n * 2 / 3
		if x.name == "ArrayQueue" {
			take = 3000
		}
		for k := 0; k < take; k++ {
			v, ok := x.takeOne()
			want := val(lo)
			if x.lifo {
				want = val(hi - 1)
			}
			if !ok || v != want {
				c.Fail("take", "huge", "%s: removal %d returned (%d,%v), want %d", x.name, k, v, ok, want)
			}
			if x.lifo {
				hi--
			} else {
				lo++
			}
		}
		check("after removing from the front/top")
	} else {
		// lists: remove from the back (constant or linear per step in all three)
		l := x.cont.(interface{ Remove(int) })
		for k := 0; k < 2000; k++ {
			l.Remove(hi - 1)
			hi--
		}
		check("after removing 2000 from the back")
	}
	c.Begin(x.name, "Clear")
	x.cont.Clear()
	lo, hi = 0, 0
	check("after Clear")
	x.put(val(0))
	hi = 1
	check("one element after Clear")
	// a second generation right after a Clear of the LARGE container, looked at
	// only after the scheduler had a chance to run anything the Clear may have
	// left behind (clean-up deferred to a goroutine)
	for i := 1; i <= 1000; i++ {
		x.put(val(i))
	}
	c.Begin(x.name, "Clear", "then 1000 elements at once, then yield")
	x.cont.Clear()
	for i := 0; i < 1000; i++ {
		x.put(val(i))
	}
	for i := 0; i < 200; i++ {
		runtime.Gosched()
	}
	time.Sleep(2 * time.Millisecond)
	lo, hi = 0, 1000
	check("1000 elements put right after Clear, read after yielding")
	c.Count("obs:huge-linear-cases", 1)
	c.Nontrivial()
}

// runMillionOps: one small container lives through more than 2^20 put/take
// pairs (position counters that are renormalised, generation stamps, indices
// kept modulo something): every removal is checked against the element that
// arithmetic says must come out.
func runMillionOps(c *core.Ctx, h int) {
	total := 1<<20 + 5000
	if c.Tier == "thorough" {
		total = 1<<22 + 5000
	}
	var name string
	var put func(int)
	var take, peek func() (int, bool)
	var size func() int
	capacity := 0
	switch h % 5 {
	case 0:
		s := arraystack.New[int]()
		name, put, take, peek, size = "ArrayStack", s.Push, s.Pop, s.Peek, s.Size
	case 1:
		s := linkedliststack.New[int]()
		name, put, take, peek, size = "LinkedListStack", s.Push, s.Pop, s.Peek, s.Size
	case 2:
		q := arrayqueue.New[int]()
		name, put, take, peek, size = "ArrayQueue", q.Enqueue, q.Dequeue, q.Peek, q.Size
	case 3:
		q := linkedlistqueue.New[int]()
		name, put, take, peek, size = "LinkedListQueue", q.Enqueue, q.Dequeue, q.Peek, q.Size
	default:
		capacity = []int{3, 5, 7, 12, 100}[(h/5)%5]
		q := circularbuffer.New[int](capacity)
		name, put, take, peek, size = "CircularBuffer", q.Enqueue, q.Dequeue, q.Peek, q.Size
	}
	lifo := h%5 < 2
	c.Begin(name, "put/take", total, "times on one instance", capacity)
	// FIFO: elements 0,1,2,... go in; keep 0..2 waiting. LIFO: a floor of three
	// elements, then push/pop pairs on top. Ring: every third step two puts and
	// one take, so that it also overwrites.
	next, out := 0, 0 // next value to put; (FIFO) next value expected out
	var stack []int
	doPut := func() {
		put(next)
		if lifo {
			stack = append(stack, next)
		} else if capacity > 0 && next-out == capacity {
			out++ // a full ring discards the oldest
		}
		next++
	}
	doTake := func(step int) {
		v, ok := take()
		want := out
		if lifo {
			want = stack[len(stack)-1]
			stack = stack[:len(stack)-1]
		} else {
			out++
		}
		if !ok || v != want {
			c.Fail("take", "after-many-operations", "%s: removal at step %d of one long-lived instance returned (%d,%v), want %d", name, step, v, ok, want)
		}
	}
	for i := 0; i < 3; i++ {
		doPut()
	}
	for step := 0; step < total; step++ {
		doPut()
		if capacity > 0 && step%3 == 0 {
			doPut()
		}
		doTake(step)
		if step%65536 == 65535 || step == total-1 {
			wantSize := next - out
			if lifo {
				wantSize = len(stack)
			}
			if sz := size(); sz != wantSize {
				c.Fail("size", "after-many-operations", "%s: Size() = %d after %d steps, want %d", name, sz, step, wantSize)
			}
			if v, ok := peek(); wantSize > 0 {
				want := out
				if lifo {
					want = stack[len(stack)-1]
				}
				if !ok || v != want {
					c.Fail("peek", "after-many-operations", "%s: Peek() = (%d,%v) after %d steps, want %d", name, v, ok, step, want)
				}
			}
			if capacity > 0 && step%3 == 0 {
				// keep the ring from staying full for ever: drain a little
				for next-out > 1 {
					doTake(step)
				}
			}
		}
	}
	c.Count("obs:million-operation-instances", 1)
	c.Nontrivial()
}
