#!/bin/bash
# selftest/seeded_all.sh [tier] — re-confirm every filed seeded change against the current checks; writes selftest/seeded_results.jsonl
cd "$(dirname "$0")/.."
TIER="${1:-quick}"
ls -d seeded/C*/ | xargs -P 4 -I{} bash -c 'd={}; p=$(basename $d | cut -d- -f1); ./selftest/seeded.sh $d x $p '"$TIER"' 2>/dev/null | sed "s#\"change\":\"[^\"]*\"#\"change\":\"$(basename $d)\"#"' | tee selftest/seeded_results_$TIER.jsonl
