package props

import (
	"cmp"

	"github.com/emirpasic/gods/v2/maps/treebidimap"
	"github.com/emirpasic/gods/v2/maps/treemap"
	"github.com/emirpasic/gods/v2/queues/priorityqueue"
	"github.com/emirpasic/gods/v2/sets/treeset"
	"github.com/emirpasic/gods/v2/trees/avltree"
	"github.com/emirpasic/gods/v2/trees/binaryheap"
	"github.com/emirpasic/gods/v2/trees/btree"
	"github.com/emirpasic/gods/v2/trees/redblacktree"
)

// builtinFor gives a domain of an ordered type access to the constructors
// that take no comparator (New[K cmp.Ordered]): the library picks the order
// itself there, and it has to be the natural one for every value of the type.
// Map values are int, bidi-map values int under their natural order.
func builtinFor[K cmp.Ordered]() func(kind string, order int) any {
	return func(kind string, order int) any {
		switch kind {
		case "RedBlackTree":
			return redblacktree.New[K, int]()
		case "AVLTree":
			return avltree.New[K, int]()
		case "BTree":
			return btree.New[K, int](order)
		case "TreeMap":
			return treemap.New[K, int]()
		case "TreeBidiMap":
			return treebidimap.New[K, int]()
		case "TreeSet":
			return treeset.New[K]()
		case "TreeSet.New": // the constructor itself (it takes initial members)
			return treeset.New[K]
		case "BinaryHeap":
			return binaryheap.New[K]()
		case "PriorityQueue":
			return priorityqueue.New[K]()
		}
		return nil
	}
}
