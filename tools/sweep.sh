#!/bin/bash
# tools/sweep.sh <tier> <seed...>   — silence sweep: every check at several seeds, one line each; exit 1 if any check is not silent.
cd "$(dirname "$0")/.."
TIER="${1:-quick}"; shift
SEEDS="${*:-1 2 3 4 5}"
BAD=0
for s in $SEEDS; do
  for p in C01 C02 C03 C04 C05 C06 C07 C08 C09 C10 C11 C12 C13 C14 C15 C16 C17 C18; do
    T0=$(date +%s)
    OUT=$(VERIF_SEED=$s ./check $p $TIER 2>&1); RC=$?
    T1=$(date +%s)
    echo "seed=$s $p rc=$RC $((T1-T0))s $(echo "$OUT" | tail -1 | cut -c1-160)"
    if [ $RC -ne 0 ]; then BAD=1; echo "$OUT" | head -20 | cut -c1-400; fi
  done
done
exit $BAD
