package props

import (
	"fmt"
	"os"
	"path/filepath"
	"runtime"
	"sort"
	"strings"
	"sync"
	"time"

	"godsverif/core"

	"github.com/anishathalye/porcupine"
	"github.com/emirpasic/gods/v2/lists"
	"github.com/emirpasic/gods/v2/maps"
	"github.com/emirpasic/gods/v2/queues"
	"github.com/emirpasic/gods/v2/sets"
	"github.com/emirpasic/gods/v2/stacks"
)

// raceLogPath is where the race runtime of THIS process appends its reports
// (GORACE log_path=<p> makes it write to <p>.<pid>).
func raceLogPath() string {
	for _, f := range strings.Fields(os.Getenv("GORACE")) {
		if strings.HasPrefix(f, "log_path=") {
			return fmt.Sprintf("%s.%d", strings.TrimPrefix(f, "log_path="), os.Getpid())
		}
	}
	return ""
}

func raceLogSize() int64 {
	p := raceLogPath()
	if p == "" {
		return 0
	}
	fi, err := os.Stat(p)
	if err != nil {
		return 0
	}
	return fi.Size()
}

// newRaceReports returns the report blocks appended to the log since offset.
func newRaceReports(from int64) []string {
	p := raceLogPath()
	if p == "" {
		return nil
	}
	b, err := os.ReadFile(p)
	if err != nil || int64(len(b)) <= from {
		return nil
	}
	var blocks []string
	for _, blk := range strings.Split(string(b[from:]), "==================") {
		if strings.Contains(blk, "WARNING: DATA RACE") {
			blocks = append(blocks, blk)
		}
	}
	return blocks
}

// raceSignature reduces a report to the outermost library frames of its two
// access stacks (the entry points into emirpasic/gods), for de-duplication.
func raceSignature(block string) (sig string, inLibrary bool) {
	var entries []string
	for _, part := range strings.Split(block, "\n\n") {
		if !(strings.Contains(part, "by goroutine") || strings.Contains(part, "by main goroutine")) || strings.Contains(part, "created at") {
			continue
		}
		outer := ""
		for _, ln := range strings.Split(part, "\n") {
			ln = strings.TrimSpace(ln)
			if strings.HasPrefix(ln, "github.com/emirpasic/gods/v2/") {
				f := strings.TrimPrefix(ln, "github.com/emirpasic/gods/v2/")
				if i := strings.Index(f, "("); i > 0 && strings.HasSuffix(f, ")") {
					// keep "pkg.(*Type[...]).Method"
				}
				if i := strings.LastIndex(f, "("); i > 0 && !strings.Contains(f[i:], "*") {
					f = f[:i]
				}
				outer = f // later lines are outer frames
			}
		}
		if outer != "" {
			inLibrary = true
			entries = append(entries, outer)
		}
	}
	sort.Strings(entries)
	if len(entries) > 2 {
		entries = entries[:2]
	}
	return strings.Join(entries, "~"), inLibrary
}

type opLog struct {
	op         int
	call, done int64
}

// spin burns a little time without any synchronisation.
func spin(n int) int {
	x := 0
	for i := 0; i < n; i++ {
		x += i ^ (x << 1)
	}
	return x
}

// phaseA: many goroutines run the read-only catalogue concurrently on a
// container nobody mutates. The race detector watches the library's memory
// accesses; every answer is compared with the sequential one; the state must
// be the same afterwards.
func phaseA(c *core.Ctx, kind string) {
	r := c.R
	// Two identical containers are built by the same history: the twin gives
	// the sequential answers and the reference fingerprint; the container
	// under test is not read at all before the concurrent phase.
	seed := r.U64()
	mk := func() *Dyn {
		c.R = core.NewR(seed)
		defer func() { c.R = r }()
		x := newDynRandom(c, kind, false)
		if kind == "CircularBuffer" && c.R.Intn(4) == 0 {
			// a ring with hundreds to thousands of slots, wrapped around its end
			cfg := drawCfg(c.R, false)
			cfg.cap = c.R.Range(512, 2100)
			x = NewDyn(kind, IntDom(8), IntDom(4), cfg)
			c.Begin(kind, "New", cfg.cap, "and wrap")
			for i, n := 0, cfg.cap+c.R.Range(1, cfg.cap); i < n; i++ {
				x.PutWide(c.R)
			}
			for i := c.R.Range(0, 300); i > 0; i-- {
				x.RemoveOne(nil)
			}
			c.Count("phaseA:big-wrapped-rings", 1)
		}
		x.build(c, c.R.Range(0, 40))
		if c.R.Chance(1, 10) && kind != "BinaryHeap" && kind != "PriorityQueue" {
			x.PeakDrain(c, c.R.Range(1100, 2600))
		}
		if c.R.Chance(1, 8) {
			c.Begin(kind, "Clear")
			x.C.Clear()
		} else if (kind == "BinaryHeap" || kind == "PriorityQueue") && c.R.Chance(1, 10) {
			// heaps above a thousand elements too (their Values() costs tens of
			// milliseconds there, so these cases run with two readers and one round)
			n := c.R.Range(1026, 1100)
			c.Begin(kind, "grow-to", n)
			for i := 0; i < n; i++ {
				x.PutWide(c.R)
			}
			x.Big = true
			c.Count("phaseA:big-heaps", 1)
		} else if c.R.Chance(1, 16) && kind != "BinaryHeap" && kind != "PriorityQueue" {
			// more than a thousand elements at the time of the reads (code paths
			// chosen by size: sentinel scans, chunked copies, parallel helpers)
			n := c.R.Range(1100, 1700)
			c.Begin(kind, "grow-to", n)
			for i := 0; i < n; i++ {
				x.PutWide(c.R)
			}
			c.Count("phaseA:big-containers", 1)
		}
		return x
	}
	d := mk()
	c.Note("the same history again, on the twin that answers sequentially")
	twin := mk()
	fp := func(x *Dyn) (Obs, []any, string) {
		if x.Big {
			return x.Observe(false), nil, "" // (one Values() instead of five equivalents)
		}
		o := x.Observe(true)
		var w []any
		if x.Walk != nil {
			w = x.Walk()
		}
		s := ""
		if x.Ordered {
			s = x.C.String() // trees: renders the exported structure
		}
		return o, w, s
	}
	// Nothing is read before the concurrent phase, not even on the twin: a read
	// may have process-wide first-time effects (package-level tables grown on
	// demand). The sequential answers and the reference fingerprint are taken
	// from the untouched twin AFTER the join.
	catT := twin.Reads()
	cat := d.Reads()
	if d.Big {
		// the cheap half of the catalogue only (each iterator walk of a big heap
		// costs as much as Values())
		keep := func(ops []ReadOp) []ReadOp {
			var out []ReadOp
			for _, o := range ops {
				switch o.Name {
				case "Values", "Size", "Empty", "Peek", "ToJSON":
					out = append(out, o)
				}
			}
			return out
		}
		catT, cat = keep(catT), keep(cat)
	}
	if len(cat) == 0 || len(cat) != len(catT) {
		c.Fail("harness", "", "read catalogues of %s and its twin differ (%d vs %d)", kind, len(cat), len(catT))
	}
	G := []int{2, 4, 8, 16, 32}[r.Intn(5)]
	rounds := 2
	if c.Tier == "thorough" {
		rounds = 6
	}
	if d.Big {
		G, rounds = 2, 1
	}
	c.Begin(kind, "concurrent-readers", G, rounds, len(cat))
	raceBefore := raceLogSize()
	seeds := make([]uint64, G)
	for g := range seeds {
		seeds[g] = r.U64()
	}
	logs := make([][]opLog, G)
	got := make([][]any, G) // every answer, compared with the sequential one after the join
	start := make(chan struct{})
	t0 := time.Now()
	var wg sync.WaitGroup
	for g := 0; g < G; g++ {
		wg.Add(1)
		go func(g int) {
			defer wg.Done()
			pr := core.NewR(seeds[g])
			mine := make([]opLog, 0, rounds*len(cat))
			ans := make([]any, 0, rounds*len(cat))
			sink := 0
			<-start // barrier: closing the channel orders the setup before every reader, not the readers among themselves
			for rd := 0; rd < rounds; rd++ {
				for _, i := range pr.Perm(len(cat)) {
					t1 := int64(time.Since(t0))
					a := cat[i].Do()
					t2 := int64(time.Since(t0))
					mine = append(mine, opLog{i, t1, t2})
					ans = append(ans, a)
					switch pr.Intn(4) {
					case 0:
						runtime.Gosched()
					case 1:
						sink += spin(pr.Intn(400)) // goroutine-local
					}
				}
			}
			logs[g] = mine
			got[g] = ans
			_ = sink
		}(g)
	}
	close(start)
	wg.Wait()
	// verdicts (after the join): the twin answers sequentially
	answers := make([]any, len(catT))
	for i := range catT {
		answers[i] = catT[i].Do()
	}
	for g := 0; g < G; g++ {
		for j, e := range logs[g] {
			if !cat[e.op].Eq(got[g][j], answers[e.op]) {
				c.Fail("concurrent-answer", cat[e.op].Name, "%s: read-only operation %s returned a different answer when called concurrently by %d goroutines than the untouched twin gives sequentially", kind, cat[e.op].Name, G)
			}
		}
	}
	o1, w1, s1 := fp(twin)
	o2, w2, s2 := fp(d)
	if diff := o1.Diff(o2); diff != "" || !sameWalk(w1, w2) || s1 != s2 {
		c.Fail("state-changed", "", "%s: after a phase of read-only calls the container's state differs from that of its untouched twin: %s", kind, diff)
	}
	for _, blk := range newRaceReports(raceBefore) {
		sig, lib := raceSignature(blk)
		if lib {
			c.Fail("data-race", sig, "%s: the race detector reported a data race between concurrent read-only operations:\n%s", kind, trimBlock(blk))
		}
		c.Count("race-reports-without-library-frames", 1)
	}
	// evidence: how much real overlap there was
	overlaps, distinct := overlapStats(logs, len(cat))
	c.Count("phaseA:containers", 1)
	c.Count("phaseA:goroutines", G)
	c.Count("phaseA:concurrent-calls", G*rounds*len(cat))
	c.Count("phaseA:overlapping-call-pairs", overlaps)
	c.Count("phaseA:distinct-overlapping-op-pairs(sum over cases)", distinct)
	for i := range cat {
		c.Count("readop:"+kind+"."+cat[i].Name, G*rounds)
	}
	c.State(core.Mix(core.HashString(kind), o1.Hash(), uint64(G)))
}

func trimBlock(b string) string {
	if len(b) > 2500 {
		return b[:2500] + "…"
	}
	return b
}

// overlapStats counts pairs of calls from different goroutines whose
// [call, return] intervals overlapped, and the distinct (opA, opB) pairs.
func overlapStats(logs [][]opLog, nops int) (int, int) {
	type ev struct {
		g int
		opLog
	}
	var all []ev
	for g, l := range logs {
		for _, e := range l {
			all = append(all, ev{g, e})
		}
	}
	sort.Slice(all, func(i, j int) bool { return all[i].call < all[j].call })
	var active []ev
	pairs := 0
	seen := map[[2]int]bool{}
	for _, e := range all {
		keep := active[:0]
		for _, a := range active {
			if a.done > e.call {
				keep = append(keep, a)
				if a.g != e.g {
					pairs++
					x, y := a.op, e.op
					if x > y {
						x, y = y, x
					}
					seen[[2]int{x, y}] = true
				}
			}
		}
		active = append(keep, e)
	}
	return pairs, len(seen)
}

// ---- phase B: caller-side RWMutex, recorded histories ------------------------

type hop struct {
	Kind string // "put","get","remove","add","contains","push","pop","peek","enq","deq","append","getidx","size"
	Key  int
	Val  int
}

type hres struct {
	V  int
	OK bool
}

type hrec struct {
	client    int
	in        hop
	out       hres
	call, ret int64
	epoch     int // writes: the epoch they created; reads: the epoch they observed
	write     bool
}

// rwTarget adapts one container family to the locked-history workload.
type rwTarget struct {
	name  string
	gen   func(r *core.R, next func() int) hop
	do    func(h hop) hres
	write func(h hop) bool
	model porcupine.Model
	// apply the op to the sequential model state (for the exact epoch check)
	init func() any
	step func(st any, in hop) (any, hres)
}

func kvState() (func() any, func(st any, in hop) (any, hres)) {
	return func() any { return map[int]int{} }, func(st any, in hop) (any, hres) {
		m := st.(map[int]int)
		switch in.Kind {
		case "put":
			m[in.Key] = in.Val
			return m, hres{}
		case "remove":
			delete(m, in.Key)
			return m, hres{}
		case "size":
			return m, hres{len(m), true}
		default:
			v, ok := m[in.Key]
			return m, hres{v, ok}
		}
	}
}

type regState struct {
	Present bool
	Val     int
}

func mapTarget(name string, m maps.Map[int, int]) *rwTarget {
	t := &rwTarget{name: name}
	t.gen = func(r *core.R, next func() int) hop {
		k := r.Intn(4) * 6
		switch r.Pick(4, 5, 2) {
		case 0:
			return hop{"put", k, next()}
		case 1:
			return hop{"get", k, 0}
		default:
			return hop{"remove", k, 0}
		}
	}
	t.write = func(h hop) bool { return h.Kind != "get" }
	t.do = func(h hop) hres {
		switch h.Kind {
		case "put":
			m.Put(h.Key, h.Val)
			return hres{}
		case "remove":
			m.Remove(h.Key)
			return hres{}
		default:
			v, ok := m.Get(h.Key)
			return hres{v, ok}
		}
	}
	t.init, t.step = kvState()
	t.model = porcupine.Model{
		Partition: func(history []porcupine.Operation) [][]porcupine.Operation {
			byKey := map[int][]porcupine.Operation{}
			for _, o := range history {
				k := o.Input.(hop).Key
				byKey[k] = append(byKey[k], o)
			}
			var out [][]porcupine.Operation
			for _, v := range byKey {
				out = append(out, v)
			}
			return out
		},
		Init: func() any { return regState{} },
		Step: func(st, in, out any) (bool, any) {
			s, h, o := st.(regState), in.(hop), out.(hres)
			switch h.Kind {
			case "put":
				return true, regState{true, h.Val}
			case "remove":
				return true, regState{}
			default:
				if s.Present {
					return o.OK && o.V == s.Val, s
				}
				return !o.OK && o.V == 0, s
			}
		},
	}
	return t
}

func setTarget(name string, s sets.Set[int]) *rwTarget {
	t := &rwTarget{name: name}
	t.gen = func(r *core.R, next func() int) hop {
		k := r.Intn(4) * 6
		return hop{[]string{"add", "contains", "contains", "remove"}[r.Intn(4)], k, 0}
	}
	t.write = func(h hop) bool { return h.Kind != "contains" }
	t.do = func(h hop) hres {
		switch h.Kind {
		case "add":
			s.Add(h.Key)
			return hres{}
		case "remove":
			s.Remove(h.Key)
			return hres{}
		default:
			return hres{0, s.Contains(h.Key)}
		}
	}
	t.init = func() any { return map[int]bool{} }
	t.step = func(st any, in hop) (any, hres) {
		m := st.(map[int]bool)
		switch in.Kind {
		case "add":
			m[in.Key] = true
			return m, hres{}
		case "remove":
			delete(m, in.Key)
			return m, hres{}
		}
		return m, hres{0, m[in.Key]}
	}
	t.model = porcupine.Model{
		Partition: func(history []porcupine.Operation) [][]porcupine.Operation {
			byKey := map[int][]porcupine.Operation{}
			for _, o := range history {
				k := o.Input.(hop).Key
				byKey[k] = append(byKey[k], o)
			}
			var out [][]porcupine.Operation
			for _, v := range byKey {
				out = append(out, v)
			}
			return out
		},
		Init: func() any { return false },
		Step: func(st, in, out any) (bool, any) {
			switch in.(hop).Kind {
			case "add":
				return true, true
			case "remove":
				return true, false
			}
			return out.(hres).OK == st.(bool), st
		},
	}
	return t
}

// seqModel is the porcupine model of stacks, queues and lists: the state is
// the sequence rendered as a string (comparable).
func seqTarget(name string, put func(int), take func() (int, bool), peek func() (int, bool), size func() int, lifo bool, capacity int) *rwTarget {
	t := &rwTarget{name: name}
	t.gen = func(r *core.R, next func() int) hop {
		switch r.Pick(4, 3, 3, 2) {
		case 0:
			return hop{"put", 0, next()}
		case 1:
			return hop{"take", 0, 0}
		case 2:
			return hop{"peek", 0, 0}
		default:
			return hop{"size", 0, 0}
		}
	}
	t.write = func(h hop) bool { return h.Kind == "put" || h.Kind == "take" }
	t.do = func(h hop) hres {
		switch h.Kind {
		case "put":
			put(h.Val)
			return hres{}
		case "take":
			v, ok := take()
			return hres{v, ok}
		case "peek":
			v, ok := peek()
			return hres{v, ok}
		default:
			return hres{size(), true}
		}
	}
	stepSeq := func(s []int, in hop) ([]int, hres) {
		switch in.Kind {
		case "put":
			if capacity > 0 && len(s) == capacity {
				s = s[1:]
			}
			return append(append([]int{}, s...), in.Val), hres{}
		case "take":
			if len(s) == 0 {
				return s, hres{}
			}
			if lifo {
				return append([]int{}, s[:len(s)-1]...), hres{s[len(s)-1], true}
			}
			return append([]int{}, s[1:]...), hres{s[0], true}
		case "peek":
			if len(s) == 0 {
				return s, hres{}
			}
			if lifo {
				return s, hres{s[len(s)-1], true}
			}
			return s, hres{s[0], true}
		default:
			return s, hres{len(s), true}
		}
	}
	t.init = func() any { return []int{} }
	t.step = func(st any, in hop) (any, hres) { s, o := stepSeq(st.([]int), in); return s, o }
	t.model = porcupine.Model{
		Init: func() any { return []int{} },
		Step: func(st, in, out any) (bool, any) {
			s, want := stepSeq(st.([]int), in.(hop))
			return want == out.(hres), s
		},
		Equal: func(a, b any) bool {
			x, y := a.([]int), b.([]int)
			if len(x) != len(y) {
				return false
			}
			for i := range x {
				if x[i] != y[i] {
					return false
				}
			}
			return true
		},
	}
	return t
}

var phaseBKinds = []string{"HashMap", "TreeMap", "LinkedHashMap", "RedBlackTree", "AVLTree", "BTree", "HashSet", "TreeSet", "LinkedHashSet",
	"ArrayStack", "LinkedListStack", "ArrayQueue", "LinkedListQueue", "CircularBuffer", "ArrayList", "DoublyLinkedList", "SinglyLinkedList"}

func phaseBTarget(c *core.Ctx, kind string) *rwTarget {
	cfg := drawCfg(c.R, true)
	d := NewDyn(kind, IntDom(4), IntDom(4), cfg)
	c.Begin(kind, "New", d.Config)
	switch x := d.Raw.(type) {
	case maps.Map[int, int]:
		return mapTarget(kind, x)
	case sets.Set[int]:
		return setTarget(kind, x)
	case stacks.Stack[int]:
		return seqTarget(kind, x.Push, x.Pop, x.Peek, x.Size, true, 0)
	case queues.Queue[int]:
		return seqTarget(kind, x.Enqueue, x.Dequeue, x.Peek, x.Size, false, d.Cap)
	case lists.List[int]:
		// a list used as a FIFO through its index operations
		return seqTarget(kind, func(v int) { x.Add(v) }, func() (int, bool) {
			v, ok := x.Get(0)
			x.Remove(0)
			return v, ok
		}, func() (int, bool) { return x.Get(0) }, x.Size, false, 0)
	}
	panic("no phase-B target for " + kind)
}

// phaseB: readers take RLock, writers Lock - the usage the property licenses.
// The recorded history is checked exactly (epoch order) and with porcupine.
func phaseB(c *core.Ctx, kind string) {
	r := c.R
	t := phaseBTarget(c, kind)
	clients := r.Range(3, 6)
	perClient := r.Range(5, 48/clients)
	c.Begin(kind, "rwmutex-history", clients, perClient)
	raceBefore := raceLogSize()
	var mu sync.RWMutex
	epoch := 0 // harness-owned, only touched under mu
	uniq := make([]int, clients)
	plans := make([][]hop, clients)
	for cl := 0; cl < clients; cl++ {
		cl := cl
		next := func() int { uniq[cl]++; return cl*1000 + uniq[cl] }
		for i := 0; i < perClient; i++ {
			plans[cl] = append(plans[cl], t.gen(r, next))
		}
	}
	seeds := make([]uint64, clients)
	for i := range seeds {
		seeds[i] = r.U64()
	}
	recs := make([][]hrec, clients)
	start := make(chan struct{})
	t0 := time.Now()
	var wg sync.WaitGroup
	for cl := 0; cl < clients; cl++ {
		wg.Add(1)
		go func(cl int) {
			defer wg.Done()
			pr := core.NewR(seeds[cl])
			mine := make([]hrec, 0, perClient)
			<-start
			for _, h := range plans[cl] {
				rec := hrec{client: cl, in: h, write: t.write(h)}
				rec.call = int64(time.Since(t0))
				if rec.write {
					mu.Lock()
					epoch++
					rec.epoch = epoch
					rec.out = t.do(h)
					mu.Unlock()
				} else {
					mu.RLock()
					rec.epoch = epoch
					rec.out = t.do(h)
					mu.RUnlock()
				}
				rec.ret = int64(time.Since(t0))
				mine = append(mine, rec)
				if pr.Intn(3) == 0 {
					runtime.Gosched()
				}
			}
			recs[cl] = mine
		}(cl)
	}
	close(start)
	wg.Wait()
	var all []hrec
	for _, l := range recs {
		all = append(all, l...)
	}
	// exact check: writes in epoch order define the state every read saw
	sort.SliceStable(all, func(i, j int) bool {
		if all[i].epoch != all[j].epoch {
			return all[i].epoch < all[j].epoch
		}
		return all[i].write && !all[j].write // the write creating an epoch precedes the reads that observed it
	})
	st := t.init()
	for _, rec := range all {
		var want hres
		st, want = t.step(st, rec.in)
		if want != rec.out {
			c.Fail("history", "differs-from-sequential-order", "%s under a caller-side RWMutex: client %d %v returned %v, but in the lock order (epoch %d) the sequential answer is %v", kind, rec.client, rec.in, rec.out, rec.epoch, want)
		}
	}
	// porcupine: linearizability of the recorded call/return intervals
	ops := make([]porcupine.Operation, len(all))
	for i, rec := range all {
		ops[i] = porcupine.Operation{ClientId: rec.client, Input: rec.in, Output: rec.out, Call: rec.call, Return: rec.ret}
	}
	switch res, _ := porcupine.CheckOperationsVerbose(t.model, ops, 3*time.Second); res {
	case porcupine.Illegal:
		c.Fail("history", "not-linearizable", "%s under a caller-side RWMutex: the recorded history of %d operations by %d clients is not linearizable w.r.t. the sequential model", kind, len(ops), clients)
	case porcupine.Unknown:
		c.Count("phaseB:porcupine-unknown", 1)
	default:
		c.Count("phaseB:porcupine-ok", 1)
	}
	for _, blk := range newRaceReports(raceBefore) {
		sig, lib := raceSignature(blk)
		if lib {
			c.Fail("data-race", sig, "%s: data race under a caller-side RWMutex (readers RLock, writers Lock):\n%s", kind, trimBlock(blk))
		}
		c.Count("race-reports-without-library-frames", 1)
	}
	c.Count("phaseB:histories", 1)
	c.Count("phaseB:operations", len(ops))
	c.State(core.Mix(core.HashString(kind), uint64(clients), uint64(perClient), uint64(epoch)))
}

func runC18(c *core.Ctx) {
	if os.Getenv("VERIF_CANARY") == "race" {
		// liveness canary: an unsynchronised write from two goroutines to a
		// harness-owned variable must produce a report
		x := 0
		var wg sync.WaitGroup
		for g := 0; g < 2; g++ {
			wg.Add(1)
			go func() { defer wg.Done(); x++ }()
		}
		wg.Wait()
		_ = x
		return
	}
	if c.Index%3 == 2 {
		phaseB(c, phaseBKinds[(c.Index/3)%len(phaseBKinds)])
	} else {
		phaseA(c, dynKinds[(c.Index-c.Index/3)%len(dynKinds)])
	}
	c.Nontrivial()
}

func c18Post(run *core.RunInfo) {
	// every report in the children's logs, classified
	files, _ := filepath.Glob(filepath.Join(run.WorkDir, "race.*"))
	total, lib := 0, 0
	sigs := map[string]int{}
	for _, f := range files {
		b, _ := os.ReadFile(f)
		for _, blk := range strings.Split(string(b), "==================") {
			if strings.Contains(blk, "WARNING: DATA RACE") {
				total++
				if s, in := raceSignature(blk); in {
					lib++
					sigs[s]++
				}
			}
		}
	}
	run.Extra["race_reports_total"] = total
	run.Extra["race_reports_with_library_frames"] = lib
	run.Extra["race_report_signatures"] = sigs
	// canary: the detector must be armed
	os.Setenv("GORACE", "halt_on_error=0 log_path="+filepath.Join(run.WorkDir, "canaryrace"))
	core.RunSingleChild(run, 950, 0, []string{"VERIF_CANARY=race", "GORACE=halt_on_error=0 log_path=" + filepath.Join(run.WorkDir, "canaryrace")}, 30*time.Second)
	cf, _ := filepath.Glob(filepath.Join(run.WorkDir, "canaryrace.*"))
	armed := false
	for _, f := range cf {
		if b, _ := os.ReadFile(f); strings.Contains(string(b), "WARNING: DATA RACE") {
			armed = true
		}
	}
	run.Extra["race_detector_canary"] = map[bool]string{true: "caught", false: "MISSED"}[armed]
	if !armed {
		run.Inconclusive = append(run.Inconclusive, "the race-detector canary (two goroutines writing one variable) produced no report: the detector is not armed")
	}
	if lib > 0 && len(run.Violations) == 0 {
		run.Inconclusive = append(run.Inconclusive, fmt.Sprintf("%d race reports with library frames were logged but not attributed to a case", lib))
	}
	run.Extra["gomaxprocs"] = runtime.GOMAXPROCS(0)
}

func init() {
	core.Register(&core.Prop{
		ID:    "C18",
		Title: "Read-only operations are pure and safe for concurrent readers",
		Cases: func(tier string) int { return tierN(tier, 2520, 100800) },
		Run:   runC18,
		Rule: "built with -race. Two of three cases are phase A: one of the 21 containers (all element types and configurations) in a state reached by a random history; the read-only catalogue (Get, GetKey, Contains, IndexOf, Peek, Size, Empty, Values, Keys, String, ToJSON, MarshalJSON, Floor, Ceiling, Min, Max, Left, Right, Height, " +
			"LeftKey/RightKey/Value, GetNode, Node.Size, forward/backward/NextTo/PrevTo walks with fresh iterators, Each/Any/All/Find/Select/Map, set algebra with itself and a shared second set, GetSortedValues(Func)) is first answered sequentially, then run by 2..32 goroutines released by one barrier, " +
			"each in a private random order with Gosched/spin jitter, with no synchronisation between barrier and join; every answer is compared with the sequential one and the state fingerprint before/after. " +
			"Every third case is phase B: 3-6 clients run <= 60 Put/Get/Remove (Add/Contains/Remove, Push/Pop/Peek, ...) with unique values under a caller-side RWMutex (readers RLock, writers Lock); the history is checked exactly in lock (epoch) order and with porcupine against the sequential model (partitioned by key/element). " +
			"A race report with a library frame during a case is a violation of that case. Every case is non-trivial; distinct = distinct hash of the setup call list and parameters.",
		Workers: 8,
		ChildEnv: func(work string) []string {
			return []string{"GORACE=halt_on_error=0 log_path=" + filepath.Join(work, "race")}
		},
		Post: c18Post,
		Floors: func(tier string, m map[string]int64) []string {
			f := &floorCheck{m: m}
			f.atLeast("phaseA:containers", 500)
			f.atLeast("phaseA:big-containers", 60)
			f.atLeast("phaseA:big-wrapped-rings", 10)
			f.atLeast("phaseA:big-heaps", 6)
			f.atLeast("phaseA:overlapping-call-pairs", 20000)
			f.atLeast("phaseB:histories", 200)
			f.atLeast("phaseB:porcupine-ok", 200)
			for k, v := range m {
				if strings.HasPrefix(k, "readop:") && v < 40 {
					f.missing = append(f.missing, fmt.Sprintf("%s executed concurrently only %d times", k, v))
				}
			}
			if len(f.missing) > 10 {
				f.missing = append(f.missing[:10], "…")
			}
			return f.missing
		},
		Files: append(append(append([]string{}, allContainerFiles...), iterFiles...), "containers/containers.go"),
		Assumptions: []string{
			"the race detector is happens-before based: it reports an unsynchronised conflicting access pair that actually executed in this run, independent of timing luck, but only within its bounded per-location access history",
			"library calls that themselves use sync.Pool/sync.Map (encoding/json inside ToJSON) introduce ordering edges the monitor cannot remove",
			"a clean run is evidence about the accesses that executed, not a proof of race freedom",
		},
	})
}
