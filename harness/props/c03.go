package props

import (
	"slices"

	"godsverif/core"

	"github.com/emirpasic/gods/v2/lists"
	"github.com/emirpasic/gods/v2/lists/arraylist"
	"github.com/emirpasic/gods/v2/lists/doublylinkedlist"
	"github.com/emirpasic/gods/v2/lists/singlylinkedlist"
)

// listAPI is what the three lists share beyond lists.List.
type listAPI[T comparable] interface {
	lists.List[T]
	IndexOf(value T) int
}

type pender[T comparable] interface {
	Append(values ...T)
	Prepend(values ...T)
}

// SeqMon shadows one list with an abstract sequence ([]T) and checks every
// observer against it after each call (C03's oracle; reused by C12 and C15).
type SeqMon[T comparable] struct {
	c     *core.Ctx
	Name  string
	L     listAPI[T]
	P     pender[T] // nil for ArrayList
	Model []T
	D     *Dom[T]
}

func newListMons[T comparable](c *core.Ctx, d *Dom[T], init ...T) []*SeqMon[T] {
	if len(init) > 0 {
		c.Begin("lists", "New", init)
	}
	al := arraylist.New[T](init...)
	sl := singlylinkedlist.New[T](init...)
	dl := doublylinkedlist.New[T](init...)
	cp := func() []T { return append([]T(nil), init...) }
	return []*SeqMon[T]{
		{c: c, Name: "ArrayList", L: al, D: d, Model: cp()},
		{c: c, Name: "SinglyLinkedList", L: sl, P: sl, D: d, Model: cp()},
		{c: c, Name: "DoublyLinkedList", L: dl, P: dl, D: d, Model: cp()},
	}
}

func (m *SeqMon[T]) n() int { return len(m.Model) }

// CheckAll compares every observer with the abstract sequence.
func (m *SeqMon[T]) CheckAll(full bool) {
	c := m.c
	if !c.Observe() {
		return
	}
	n := m.n()
	if sz := m.L.Size(); sz != n {
		c.Fail("size", "", "%s.Size() = %d, abstract sequence has %d elements %s", m.Name, sz, n, short(m.Model))
	}
	if e := m.L.Empty(); e != (n == 0) {
		c.Fail("empty", "", "%s.Empty() = %v with %d elements", m.Name, e, n)
	}
	c.Count("obs:Size", 1)
	if n > 1000 {
		c.Count("obs:on-list-larger-than-1000", 1)
	}
	if full {
		vs := m.L.Values()
		if !eqSlices(vs, m.Model) {
			c.Fail("values", "", "%s.Values() = %s, abstract sequence = %s", m.Name, short(vs), short(m.Model))
		}
		ruin(vs)
		c.Count("obs:Values", 1)
		if n <= 256 {
			// every index, starting somewhere in the middle and wrapping: an
			// implementation that re-anchors itself when asked for an end must
			// not be helped by the monitor always asking for the ends first
			start := c.R.Intn(n + 2)
			for k := 0; k < n+2; k++ {
				m.checkGet((start+k)%(n+2) - 1)
			}
		} else { // Get is linear on the linked lists: sample
			for k := 0; k < 24; k++ {
				m.checkGet(c.R.Range(-1, n))
			}
			for _, j := range []int{-1, 0, 1, n / 2, n - 2, n - 1, n} {
				m.checkGet(j)
			}
		}
		for _, v := range m.D.Alpha {
			m.checkIndexOf(v)
		}
		m.checkIndexOf(m.D.Probe[0])
		c.State(core.Mix(core.HashString(m.Name), hashVals(m.Model)))
	} else {
		// probes on a large list: ends, middle, a few random
		for _, j := range []int{-1, 0, n / 2, n - 1, n, c.R.Range(0, n)} {
			m.checkGet(j)
		}
		m.checkIndexOf(m.D.Val(c.R))
	}
}

func (m *SeqMon[T]) checkGet(j int) {
	v, ok := m.L.Get(j)
	var zero T
	if j >= 0 && j < m.n() {
		if !ok || v != m.Model[j] {
			m.c.Fail("get", indexClass(j, m.n()), "%s.Get(%d) = (%v,%v), abstract sequence has %v there; sequence %s", m.Name, j, v, ok, m.Model[j], short(m.Model))
		}
	} else if ok || v != zero {
		m.c.Fail("get", indexClass(j, m.n()), "%s.Get(%d) = (%v,%v) on a sequence of %d elements, want (zero,false)", m.Name, j, v, ok, m.n())
	}
	m.c.Count("obs:Get", 1)
}

func (m *SeqMon[T]) checkIndexOf(v T) {
	want := slices.Index(m.Model, v)
	if got := m.L.IndexOf(v); got != want {
		m.c.Fail("indexof", "", "%s.IndexOf(%v) = %d, first occurrence in abstract sequence is %d; sequence %s", m.Name, v, got, want, short(m.Model))
	}
	m.c.Count("obs:IndexOf", 1)
}

func (m *SeqMon[T]) checkContains(vs []T) {
	want := true
	for _, v := range vs {
		if !slices.Contains(m.Model, v) {
			want = false
		}
	}
	m.c.Begin(m.Name, "Contains", vs)
	if got := m.L.Contains(vs...); got != want {
		m.c.Fail("contains", countClass(len(vs)), "%s.Contains(%v) = %v, want %v; sequence %s", m.Name, vs, got, want, short(m.Model))
	}
	m.c.Count("obs:Contains", 1)
}

// listOp is one generated call; the same op is applied to all three lists.
type listOp[T comparable] struct {
	kind string
	i, j int
	vs   []T
	cmp  NamedCmp[T]
	// Sort: 0 = the comparator as it is, 1 = wrapped by the closure factory,
	// 2 = wrapped, followed at once by a second Sort with the reversed wrapped one
	again int
}

// checkSorted validates the list against the specification's set of answers
// after Sort (ties may be ordered either way by an unstable sort), then
// resynchronises the model.
func (m *SeqMon[T]) checkSorted(cm NamedCmp[T]) {
	c := m.c
	got := m.L.Values()
	if !sameMultiset(got, m.Model) {
		c.Fail("sort", "not-a-permutation", "%s.Sort(%s): result %s is not a permutation of %s", m.Name, cm.Name, short(got), short(m.Model))
	}
	for k := 1; k < len(got); k++ {
		if cm.F(got[k-1], got[k]) > 0 {
			c.Fail("sort", "not-sorted", "%s.Sort(%s): result %s is not sorted at position %d", m.Name, cm.Name, short(got), k)
		}
	}
	m.Model = append(m.Model[:0:0], got...)
	c.Count("obs:Sort", 1)
}

func (m *SeqMon[T]) cell(op listOp[T]) {
	switch op.kind {
	case "Insert":
		m.c.Count("cell:"+m.Name+"/Insert/"+indexClass(op.i, m.n())+"/"+countClass(len(op.vs)), 1)
	case "Remove", "Set":
		m.c.Count("cell:"+m.Name+"/"+op.kind+"/"+indexClass(op.i, m.n()), 1)
	case "Swap":
		m.c.Count("cell:"+m.Name+"/Swap/"+indexClass(op.i, m.n())+"/"+indexClass(op.j, m.n()), 1)
	}
}

// Apply performs op on the real list and on the abstract sequence.
func (m *SeqMon[T]) Apply(op listOp[T]) {
	c := m.c
	n := m.n()
	m.cell(op)
	switch op.kind {
	case "Add":
		c.Begin(m.Name, "Add", op.vs)
		m.L.Add(op.vs...)
		m.Model = append(m.Model, op.vs...)
	case "Append":
		if m.P == nil {
			c.Begin(m.Name, "Add", op.vs)
			m.L.Add(op.vs...)
		} else {
			c.Begin(m.Name, "Append", op.vs)
			m.P.Append(op.vs...)
		}
		m.Model = append(m.Model, op.vs...)
	case "Prepend":
		if m.P == nil {
			c.Begin(m.Name, "Insert", 0, op.vs)
			m.L.Insert(0, op.vs...)
		} else {
			c.Begin(m.Name, "Prepend", op.vs)
			m.P.Prepend(op.vs...)
		}
		m.Model = append(slices.Clone(op.vs), m.Model...)
	case "Insert":
		c.Begin(m.Name, "Insert", op.i, op.vs)
		m.L.Insert(op.i, op.vs...)
		if op.i >= 0 && op.i <= n {
			m.Model = slices.Insert(m.Model, op.i, op.vs...)
		}
	case "Remove":
		c.Begin(m.Name, "Remove", op.i)
		m.L.Remove(op.i)
		if op.i >= 0 && op.i < n {
			m.Model = slices.Delete(m.Model, op.i, op.i+1)
		}
	case "Set":
		v := op.vs[0]
		c.Begin(m.Name, "Set", op.i, v)
		m.L.Set(op.i, v)
		if op.i >= 0 && op.i < n {
			m.Model[op.i] = v
		} else if op.i == n {
			m.Model = append(m.Model, v)
		}
	case "Swap":
		c.Begin(m.Name, "Swap", op.i, op.j)
		m.L.Swap(op.i, op.j)
		if op.i >= 0 && op.i < n && op.j >= 0 && op.j < n {
			m.Model[op.i], m.Model[op.j] = m.Model[op.j], m.Model[op.i]
		}
	case "Sort":
		cm := op.cmp
		if op.again > 0 {
			// comparators from one factory (one code pointer, different captures);
			// two Sorts in a row, the second by another order
			cm = NamedCmp[T]{Name: cm.Name + "(factory closure)", F: viaFactory(cm.F, false)}
		}
		c.Begin(m.Name, "Sort", cm.Name)
		m.L.Sort(cm.F)
		m.checkSorted(cm)
		if op.again == 2 {
			cm = NamedCmp[T]{Name: op.cmp.Name + "(factory closure, reversed)", F: viaFactory(op.cmp.F, true)}
			c.Begin(m.Name, "Sort", cm.Name)
			m.L.Sort(cm.F)
			m.checkSorted(cm)
			c.Count("obs:Sort-twice-factory-comparators", 1)
		}
	case "Clear":
		c.Begin(m.Name, "Clear")
		m.L.Clear()
		m.Model = m.Model[:0]
	case "Contains":
		m.checkContains(op.vs)
		return
	case "Get":
		// a read as part of the history (not of the observation sweep): Get(i)
		// followed by Insert/Remove at or next to i and another Get are the
		// sequences a position cache gets wrong
		c.Begin(m.Name, "Get", op.i)
		m.checkGet(op.i)
		return
	case "IndexOf":
		c.Begin(m.Name, "IndexOf", op.vs[0])
		m.checkIndexOf(op.vs[0])
		return
	}
}

// genListOp draws the next call knowing only the abstract size n.
func genListOp[T comparable](r *core.R, d *Dom[T], n int, maxN int) listOp[T] {
	grow := n < maxN
	w := []int{8, 3, 3, 10, 9, 6, 5, 2, 1, 4, 9, 2}
	if !grow {
		w[0], w[1], w[2], w[3] = 1, 0, 0, 1
		w[4] = 20
	}
	if maxN > 500 {
		w[8] = 0 // a Clear every ~50 calls would keep the list small for ever
		w[7] = 1
	}
	switch r.Pick(w...) {
	case 0:
		return listOp[T]{kind: "Add", vs: d.Vals(r, varCountBig(r))}
	case 1:
		return listOp[T]{kind: "Append", vs: d.Vals(r, varCount(r))}
	case 2:
		return listOp[T]{kind: "Prepend", vs: d.Vals(r, varCountBig(r))}
	case 3:
		return listOp[T]{kind: "Insert", i: structIndex(r, n), vs: d.Vals(r, varCountBig(r))}
	case 4:
		return listOp[T]{kind: "Remove", i: structIndex(r, n)}
	case 5:
		return listOp[T]{kind: "Set", i: structIndex(r, n), vs: []T{d.Val(r)}}
	case 6:
		return listOp[T]{kind: "Swap", i: hostileIndex(r, n), j: hostileIndex(r, n)}
	case 7:
		return listOp[T]{kind: "Sort", cmp: d.Cmps[r.Intn(len(d.Cmps))], again: r.Intn(3)}
	case 8:
		return listOp[T]{kind: "Clear"}
	case 10:
		// mostly the index of the previous or next structural call's neighbourhood
		return listOp[T]{kind: "Get", i: nearIndex(r, n)}
	case 11:
		return listOp[T]{kind: "IndexOf", vs: []T{d.AnyVal(r)}}
	default:
		k := varCount(r)
		vs := make([]T, k)
		for i := range vs {
			vs[i] = d.AnyVal(r)
		}
		return listOp[T]{kind: "Contains", vs: vs}
	}
}

// structIndex draws the index of a structural call: hostile, or (one time in
// three) at or next to the index of the previous index-taking call.
func structIndex(r *core.R, n int) int {
	i := hostileIndex(r, n)
	if r.Intn(3) == 0 {
		i = r.Last + r.Range(-1, 1)
	}
	if i >= 0 && i <= n {
		r.Last = i
	}
	return i
}

// (r.Last remembers the index used by the previous index-taking call of the
// generator, so that consecutive calls often hit the same or adjacent index;
// it lives in the case's own PRNG stream object.)

func nearIndex(r *core.R, n int) int {
	switch r.Intn(4) {
	case 0:
		return hostileIndex(r, n)
	case 1:
		return r.Last
	default:
		i := r.Last + r.Range(-2, 2)
		if i >= 0 && i <= n && r.Bool() {
			r.Last = i
		}
		return i
	}
}

func runListHistory[T comparable](c *core.Ctx, d *Dom[T], steps, maxN int) {
	var init []T
	if c.R.Chance(1, 3) {
		init = d.Vals(c.R, varCount(c.R)) // the variadic constructors
	}
	mons := newListMons(c, d, init...)
	for _, m := range mons {
		m.CheckAll(true)
	}
	for s := 0; s < steps; s++ {
		op := genListOp(c.R, d, mons[0].n(), maxN)
		for _, m := range mons {
			m.Apply(op)
			if op.kind != "Contains" && op.kind != "Get" && op.kind != "IndexOf" {
				m.CheckAll(m.n() <= 64 || s%16 == 0 || s == steps-1)
			}
		}
	}
	for _, m := range mons {
		c.ObserveNow()
		m.CheckAll(true)
	}
	c.Nontrivial()
}

// sweepList: deterministic sweep of (size, op, index, count) from a list
// built to exactly that size; index covers -1..size+1.
func runListSweep[T comparable](c *core.Ctx, d *Dom[T], idx int) {
	kinds := []string{"Insert", "Remove", "Set", "Swap"}
	size := idx % 13
	idx /= 13
	kind := kinds[idx%4]
	idx /= 4
	cnt := idx % 4
	mons := newListMons(c, d)
	init := d.Vals(c.R, size)
	for _, m := range mons {
		m.Apply(listOp[T]{kind: "Add", vs: init})
	}
	for i := -1; i <= size+1; i++ {
		for j := -1; j <= size+1; j++ {
			if kind != "Swap" && j != 0 {
				continue
			}
			op := listOp[T]{kind: kind, i: i, j: j, vs: d.Vals(c.R, cnt)}
			if kind == "Set" {
				op.vs = d.Vals(c.R, 1)
			}
			for _, m := range mons {
				m.Apply(op)
				m.CheckAll(true)
			}
			// restore the size so that every index is probed at the same size
			for _, m := range mons {
				for m.n() > size {
					m.Apply(listOp[T]{kind: "Remove", i: m.n() - 1})
				}
				for m.n() < size {
					m.Apply(listOp[T]{kind: "Add", vs: d.Vals(c.R, 1)})
				}
			}
		}
	}
	c.Nontrivial()
}

// sawtooth drives the array list through its grow x2 / shrink-at-25%
// thresholds repeatedly (the linked lists follow in lockstep).
func runListSawtooth[T comparable](c *core.Ctx, d *Dom[T]) {
	mons := newListMons(c, d)
	k := c.R.Range(3, 9)
	hi := 1<<k + 1
	lo := 1<<(k-2) - 1
	for round := 0; round < 3; round++ {
		for mons[0].n() < hi {
			var op listOp[T]
			switch c.R.Intn(4) {
			case 0:
				op = listOp[T]{kind: "Add", vs: d.Vals(c.R, c.R.Range(1, 3))}
			case 1:
				op = listOp[T]{kind: "Insert", i: c.R.Range(0, mons[0].n()), vs: d.Vals(c.R, c.R.Range(1, 3))}
			case 2:
				op = listOp[T]{kind: "Set", i: mons[0].n(), vs: d.Vals(c.R, 1)}
			default:
				op = listOp[T]{kind: "Prepend", vs: d.Vals(c.R, 1)}
			}
			for _, m := range mons {
				m.Apply(op)
				m.CheckAll(m.n() <= 40)
			}
		}
		for _, m := range mons {
			m.CheckAll(true)
		}
		for mons[0].n() > lo {
			n := mons[0].n()
			i := []int{0, n - 1, n / 2, c.R.Range(0, n-1)}[c.R.Intn(4)]
			op := listOp[T]{kind: "Remove", i: i}
			for _, m := range mons {
				m.Apply(op)
				m.CheckAll(m.n() <= 40)
			}
		}
		for _, m := range mons {
			m.CheckAll(true)
		}
	}
	c.Nontrivial()
}

// runListBulk: a large batch arrives in ONE call on a list that is empty at
// that moment (fresh, cleared, or through the constructor), then the list is
// used normally. Chunked allocation and block-wise copying have their seams at
// 512/1024/4096; one-value-at-a-time growth never crosses them inside a call.
func runListBulk(c *core.Ctx, sel int) {
	r := c.R
	d := IntDom(12)
	n := []int{511, 512, 513, 1023, 1024, 1025, 1500, 2048, 2049, 4096, 4097, 5000}[sel%12]
	vs := make([]int, n)
	for i := range vs {
		vs[i] = d.Wide(r)
	}
	var mons []*SeqMon[int]
	switch (sel / 12) % 4 {
	case 0:
		mons = newListMons(c, d, vs...) // the variadic constructors
	case 1:
		mons = newListMons(c, d)
		for _, m := range mons {
			m.Apply(listOp[int]{kind: "Add", vs: vs})
		}
	case 2:
		mons = newListMons(c, d, d.Vals(r, 5)...)
		for _, m := range mons {
			m.Apply(listOp[int]{kind: "Clear"})
			m.Apply(listOp[int]{kind: "Insert", i: 0, vs: vs})
		}
	default:
		mons = newListMons(c, d, d.Vals(r, 3)...)
		for _, m := range mons {
			m.Apply(listOp[int]{kind: "Add", vs: vs}) // onto a non-empty list, as a control
		}
	}
	c.Count("obs:bulk-into-empty-list", 1)
	for _, m := range mons {
		m.CheckAll(true)
	}
	for s := 0; s < 40; s++ {
		op := genListOp(r, d, mons[0].n(), n+64)
		for _, m := range mons {
			m.Apply(op)
		}
	}
	for _, m := range mons {
		c.ObserveNow()
		m.CheckAll(true)
	}
	c.Nontrivial()
}

func runC03(c *core.Ctx) {
	const sweepCases = 13 * 4 * 4
	i := c.Index
	c.SetGaps(i >= sweepCases && (i/4)%2 == 1)
	switch {
	case i >= sweepCases && i < sweepCases+3:
		c.SetGaps(false)
		runHugeLinear(c, i-sweepCases, hugeLinearN(c.Tier)) // the three lists with 300 000 elements
	case i < sweepCases:
		runListSweep(c, IntDom(5), i)
	case i%20 == 0:
		runListSawtooth(c, IntDom(6))
	case i%400 == 21:
		runListHistory(c, IntDom(12), 7000, c.R.Range(2000, 5000)) // sizes that small tests never reach
	case i%20 == 1:
		runListHistory(c, IntDom(8), 400, c.R.Range(100, 300))
	case i%20 == 6:
		runListHistory(c, StructDom(c.R.Range(3, 10)), c.R.Range(20, 120), c.R.Range(4, 24))
	case i%20 == 7:
		c.Count("elemtype:pointer-twins", 1)
		runListHistory(c, PTwinDom(), c.R.Range(20, 120), c.R.Range(4, 24))
	case i%20 == 8:
		// ints from the whole range of the type as elements (negatives, extremes)
		c.Count("elemtype:wide-int", 1)
		runListHistory(c, WideIntDom(c.R, c.R.Range(3, 10)), c.R.Range(20, 120), c.R.Range(4, 24))
	case i%200 == 9:
		runListBulk(c, i/200)
	case i%20 == 2 && c.Tier == "thorough":
		runListHistory(c, IntDom(12), 1500, c.R.Range(1000, 3000))
	case i%4 == 3:
		runListHistory(c, StrDom(c.R.Range(3, 12)), c.R.Range(20, 120), c.R.Range(4, 24))
	default:
		runListHistory(c, IntDom(c.R.Range(2, 8)), c.R.Range(20, 120), c.R.Range(4, 24))
	}
}

var listFiles = []string{"lists/arraylist/arraylist.go", "lists/singlylinkedlist/singlylinkedlist.go", "lists/doublylinkedlist/doublylinkedlist.go"}

func init() {
	core.Register(&core.Prop{
		ID:    "C03",
		Title: "The three lists behave as one mathematical sequence",
		Cases: func(tier string) int { return tierN(tier, 40000, 800000) },
		Run:   runC03,
		Rule: "case = f(seed, index): cases 0..207 are the deterministic sweep (size 0..12 x {Insert,Remove,Set,Swap} x variadic count 0..3, every index -1..size+1); " +
			"the others are random histories of Add/Append/Prepend/Insert/Remove/Set/Swap/Sort/Clear/Contains with hostile indices and variadic counts {0,1,2,3,17} over small int or string alphabets, " +
			"plus sawtooth growth/shrink runs and long histories; the same calls go to ArrayList, SinglyLinkedList and DoublyLinkedList, each shadowed by a Go slice. " +
			"Every case is non-trivial (it makes at least one mutating call followed by a full observer comparison); distinct = distinct hash of the full call list.",
		Floors: func(tier string, m map[string]int64) []string {
			f := &floorCheck{m: m}
			f.atLeast("obs:bulk-into-empty-list", 150)
			f.atLeast("elemtype:pointer-twins", 1000)
			f.atLeast("elemtype:wide-int", 1000)
			for _, l := range []string{"ArrayList", "SinglyLinkedList", "DoublyLinkedList"} {
				for _, ic := range []string{"negative", "first", "front-half", "back-half", "last", "size", "beyond"} {
					for _, cc := range []string{"0", "1", ">1"} {
						f.atLeast("cell:"+l+"/Insert/"+ic+"/"+cc, 20)
					}
					f.atLeast("cell:"+l+"/Remove/"+ic, 20)
					f.atLeast("cell:"+l+"/Set/"+ic, 20)
				}
			}
			f.atLeast("obs:Sort", 100)
			f.atLeast("obs:Values", 10000)
			return f.missing
		},
		Files: listFiles,
		Assumptions: []string{
			"element types exercised: int and string; comparators for Sort are strict weak orders",
			"the order of elements that compare equal after Sort is not prescribed (the model is resynchronised to the validated result)",
			"a clean run says the property held on the executed histories only",
		},
	})
}
