package core

import (
	"bufio"
	"os"
	"os/exec"
	"path/filepath"
	"sort"
	"strconv"
	"strings"
)

// KnownFindings is the committed list of genuine defects. Only "open:" lines
// suppress anything, and only the exact signature they name.
type KnownFindings struct {
	Open map[string]string // sig -> description
}

// LoadKnownFindings parses lines of the form
//
//	open: property=<id> sig=<signature> <what fails>
//	fixed: property=<id> <commit> <what failed>
//
// The file is read-only at run time.
func LoadKnownFindings(path string) *KnownFindings {
	kf := &KnownFindings{Open: map[string]string{}}
	f, err := os.Open(path)
	if err != nil {
		return kf
	}
	defer f.Close()
	sc := bufio.NewScanner(f)
	for sc.Scan() {
		line := strings.TrimSpace(sc.Text())
		if !strings.HasPrefix(line, "open:") {
			continue
		}
		rest := strings.TrimSpace(strings.TrimPrefix(line, "open:"))
		fields := strings.Fields(rest)
		var sig string
		var text []string
		for _, fl := range fields {
			switch {
			case strings.HasPrefix(fl, "sig=") && sig == "":
				sig = strings.TrimPrefix(fl, "sig=")
			case strings.HasPrefix(fl, "property="):
			default:
				text = append(text, fl)
			}
		}
		if sig != "" {
			kf.Open[sig] = strings.Join(text, " ")
		}
	}
	return kf
}

type fileCov struct {
	Executed  int      `json:"blocks_executed"`
	Total     int      `json:"blocks_total"`
	Unreached []string `json:"unreached_blocks,omitempty"`
}

// libraryCoverage converts the children's GOCOVERDIR data into per-file block
// counts for the anchored library files: evidence that the monitored workload
// actually executed the mechanism, not only that it ran.
func libraryCoverage(covDir string, files []string) map[string]*fileCov {
	ents, err := os.ReadDir(covDir)
	if err != nil || len(ents) == 0 {
		return nil
	}
	out := filepath.Join(covDir, "cov.txt")
	cmd := exec.Command("go", "tool", "covdata", "textfmt", "-i="+covDir, "-o="+out)
	cmd.Env = append(os.Environ(), "GOFLAGS=-mod=mod", "GOPROXY=off", "GOSUMDB=off", "GOTOOLCHAIN=local")
	if err := cmd.Run(); err != nil {
		return nil
	}
	f, err := os.Open(out)
	if err != nil {
		return nil
	}
	defer f.Close()
	want := map[string]bool{}
	for _, fl := range files {
		want[fl] = true
	}
	res := map[string]*fileCov{}
	type blk struct {
		pos string
		hit bool
	}
	blocks := map[string]map[string]bool{}
	sc := bufio.NewScanner(f)
	sc.Buffer(make([]byte, 1<<20), 1<<20)
	const prefix = "github.com/emirpasic/gods/v2/"
	for sc.Scan() {
		line := sc.Text()
		if !strings.HasPrefix(line, prefix) {
			continue
		}
		line = line[len(prefix):]
		colon := strings.IndexByte(line, ':')
		if colon < 0 {
			continue
		}
		file := line[:colon]
		if !want[file] {
			continue
		}
		fs := strings.Fields(line[colon+1:])
		if len(fs) != 3 {
			continue
		}
		cnt, _ := strconv.Atoi(fs[2])
		if blocks[file] == nil {
			blocks[file] = map[string]bool{}
		}
		blocks[file][fs[0]] = blocks[file][fs[0]] || cnt > 0
	}
	for file, bm := range blocks {
		fc := &fileCov{}
		for pos, hit := range bm {
			fc.Total++
			if hit {
				fc.Executed++
			} else {
				fc.Unreached = append(fc.Unreached, pos)
			}
		}
		sort.Slice(fc.Unreached, func(i, j int) bool {
			return lineOf(fc.Unreached[i]) < lineOf(fc.Unreached[j])
		})
		if len(fc.Unreached) > 40 {
			fc.Unreached = append(fc.Unreached[:40], "…")
		}
		res[file] = fc
	}
	return res
}

func lineOf(pos string) int {
	if i := strings.IndexByte(pos, '.'); i >= 0 {
		v, _ := strconv.Atoi(pos[:i])
		return v
	}
	return 0
}
