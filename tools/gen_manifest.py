#!/usr/bin/env python3
"""Regenerates /verif/MANIFEST.json from the table below (single source of truth for the interface)."""
import json, os, subprocess

HERE = os.path.dirname(os.path.dirname(os.path.abspath(__file__)))
ENV = "export GOFLAGS=-mod=mod GOPROXY=off GOSUMDB=off GOTOOLCHAIN=local"

# id -> (technique, level text, level note, design ref)
CHECKS = {
 "C01": ("online reference-model monitor (lockstep abstract map) over order-family workloads on all 8 key-value containers",
         "Exploration: every Put/Remove/Clear/Get of each generated history runs on the real container and on an abstract map (identity- or comparator-class-keyed); Get of touched + probe keys, Size, Empty after every call, Keys/Values exactly-once and alignment on every call while n<=64; remove-absent compares snapshots. Holds on the executed histories only.",
         "Trusts the abstract-map model (kvmodel.go) and Go's runtime; keys int (small alphabets and ints from the whole range: negatives, extremes, pairs more than MaxInt apart), string, struct (with Equal/Compare/Less/IsZero methods that disagree with == and the comparators) and (ordered containers) float64 incl. NaN, and non-nil pointer keys whose library-facing comparator refuses nil; histories of TreeMap/TreeBidiMap continue on Map/Select results; values int; comparators natural/reversed/coarsened/un-normalised, and the built-in order of the New constructors.",
         "DESIGN.md §4 C01"),
 "C02": ("online monitor: sortedness, iterator walk, extremes and exhaustive Floor/Ceiling probing against a sorted model",
         "Exploration: after every call of C01-style histories on the six comparator-ordered containers, enumeration order, all extreme accessors and Floor/Ceiling for present, absent, between-neighbour and out-of-range probes are compared with the sorted model. Holds on the executed histories and probes only.",
         "Trusts the sorted model (binary search over a slice) and the comparators being strict weak orders.",
         "DESIGN.md §4 C02"),
 "C03": ("online reference-model monitor (lockstep abstract sequence) over hostile randomized + swept list histories",
         "Exploration: every call of each generated history is made on the real ArrayList, SinglyLinkedList and DoublyLinkedList and on a Go-slice model; Values/Get/IndexOf/Contains/Size/Empty are compared after each call. Holds on the executed histories only (counts in the evidence file).",
         "Trusts the 60-line slice model and Go's runtime; element types int (also from the whole range of the type), string, struct and pointers; Sort tie order is not constrained.",
         "DESIGN.md §4 C03"),
 "C04": ("online reference-model monitor (lockstep abstract set) over variadic Add/Remove/Contains histories",
         "Exploration: after every Add/Remove/Clear on HashSet, LinkedHashSet and TreeSet, Contains over the whole alphabet, Contains(list), Size, Empty and Values (each member exactly once) are compared with a model set. Holds on the executed histories only.",
         "Trusts the model set; element types int (also from the whole range of the type), string, struct (with methods that disagree with ==) and float64 incl. NaN; TreeSet comparators natural/reversed/coarsened/un-normalised and the built-in order of New.",
         "DESIGN.md §4 C04"),
 "C05": ("online reference-model monitor (LIFO/FIFO/bounded FIFO with unique items) incl. a sweep of every ring (capacity, offset, fill) state",
         "Exploration: every Push/Pop/Peek/Enqueue/Dequeue/Clear return value and Values/Size/Empty/Full after every call are compared with a slice model; the ring sweep visits every (capacity<=17, start offset, fill) state and samples larger capacities. Holds on the executed histories only.",
         "Trusts the slice model; items are unique ints (one case in five: runs of equal ints), strings, structs (one larger than a page) or repeating pointers.",
         "DESIGN.md §4 C05"),
 "C06": ("online multiset monitor with minimality check on every Pop/Peek, permutation check of Values/iteration, final drain",
         "Exploration: BinaryHeap and PriorityQueue under interleaved single/bulk Push, Pop, Peek, Clear, FromJSON with five comparators incl. ties between distinguishable elements; every return value is checked for membership and minimality against a multiset. Holds on the executed histories only.",
         "Trusts the multiset model; elements are {P, unique ID} structs, and in one case of five interface values holding slices, floats (NaN, both zeros), pointers, ints, strings or JSON structs.",
         "DESIGN.md §4 C06"),
 "C07": ("counting comparator per call (client-boundary hook) against the stated bounds + structure walkers at every quiescent point",
         "Exploration: every Get/Put/Remove on RedBlackTree, AVLTree, BTree is measured against the stated comparator-call bound, and the exported structure is walked (AVL heights, B-tree node shape/leaf depth/Height(), red-black path ratio/node count/parent links) under amplifying workloads up to n=3000 (quick) / 20000 (thorough). Holds on the executed histories only.",
         "Bound evaluated with n = max(size before, size after); red-black paths counted in nodes to NIL leaves.",
         "DESIGN.md §4 C07"),
 "C08": ("online monitor: integer cursor model shadowing each of the 18 iterator types, swept and random call sequences",
         "Exploration: every Next/Prev/Begin/End/First/Last/NextTo/PrevTo call is mirrored on a cursor over the container's own sequence; return values and Index/Key/Value after successful moves are compared. Sweep covers every (n<=6, position, op); random sequences cover larger and post-removal states. Holds on the executed call sequences only.",
         "Container unmodified during iteration; values read only after successful moves.",
         "DESIGN.md §4 C08"),
 "C09": ("online reference-model monitor (insertion-order list) incl. Each callback log and ToJSON token order",
         "Exploration: after every Put/Add/Remove/Clear on LinkedHashMap and LinkedHashSet, Keys, Values, iterator walk, Each order and ToJSON order are compared with the model order. Holds on the executed histories only.",
         "Trusts the slice+map model; int, string, float keys (every NaN a key of its own) and struct keys carrying Equal/Compare/Less/IsZero/Hash methods that disagree with ==.",
         "DESIGN.md §4 C09"),
 "C10": ("online reference-model monitor (pair of inverse maps), every key and value probed in both directions after every call; loads of foreign JSON documents with colliding members are steps of the histories",
         "Exploration: HashBidiMap and TreeBidiMap over 4-6 keys x 4-6 values so all collision kinds occur constantly; Get/GetKey for the whole alphabets, inverse consistency on the implementation's own answers, Size=len(Keys)=len(Values), no duplicate/stale value. Holds on the executed histories only.",
         "Trusts the two-map model with the stated Put/Remove rule (class-keyed for TreeBidiMap).",
         "DESIGN.md §4 C10"),
 "C11": ("online round-trip monitor: ToJSON validity/shape/json.Marshal equality, reload into fresh containers through four loaders (FromJSON, json.Unmarshal, UnmarshalJSON, member of an enclosing document), observer equivalence, lockstep drain/continuation",
         "Exploration: all 21 containers in never-used, cleared and history-reached states (wrapped rings, all comparators, int/string keys, values equal to key text); output of ToJSON is loaded by FromJSON, json.Unmarshal, UnmarshalJSON and as a member of an enclosing document into fresh containers of the same configuration which must be equivalent in every observer and drain/continue identically. Holds on the executed states only.",
         "Trusts encoding/json as the judge of validity; elements/keys are ints, valid-UTF-8 strings, a defined string type, JSON structs, pointer-receiver JSON types, and `any` holding float64/string/bool/nil.",
         "DESIGN.md §4 C11"),
 "C12": ("online monitor over (prior state x hostile input) pairs: before/after snapshots on error, harness-side denotation on success, lockstep continuation against a container built through the ordinary API",
         "Exploration: 21 containers x prior states (empty, small, big, full ring) x ten input families (well-formed, element-level type errors at first/middle/last, literal corpus, truncations, byte mutations, random bytes, deep nesting, trailing garbage, other states' output) through three loaders. Error => all observers equal the snapshot; success => equivalent to a fresh container filled with the decoded denotation, also over 20-60 further identical calls. Holds on the executed pairs only.",
         "Denotation = what encoding/json decodes into []T / map[K]V; success on undenotable input is recorded, not judged; maps/heaps use total-order comparators here.",
         "DESIGN.md §4 C12"),
 "C13": ("online set-algebra monitor: exact members, fresh result, unchanged operands, comparator retention, independence under mutation",
         "Exploration: pairs of HashSet/LinkedHashSet/TreeSet in ten relations (disjoint, overlapping, nested, equal, same object, empty...) built by histories; each of Intersection/Union/Difference is checked for exact members, result identity, operand purity, TreeSet order (also after further Adds) and independence of all three sets. Holds on the executed pairs only.",
         "Trusts the model (slices with class equality); TreeSets share one comparator function value.",
         "DESIGN.md §4 C13"),
 "C14": ("callback event log vs iterator walk; exists/for-all/first-match oracles; Select/Map against a fresh container of the same kind filled in iteration order",
         "Exploration: 8 enumerable container kinds in history-reached states, predicate/mapping families over index, key and value incl. constants and many-to-one maps; Each log equals the iterator walk, Any/All/Find equal the logical oracles, Select/Map equal the reference construction, receiver unchanged, result independent and keeping the receiver's comparators. Holds on the executed states and functions only.",
         "Oracle for derived containers is the library's own container semantics (checked by C01-C10).",
         "DESIGN.md §4 C14"),
 "C15": ("online observer-agreement monitor on all 21 containers + cleared-vs-fresh lockstep",
         "Exploration: after every call of random hostile histories Empty/Size/Values/Keys agree and String() is a pure observer with the right prefix; after Clear at a random point the container runs in lockstep with a freshly constructed one (same configuration) comparing every observer incl. ToJSON, iteration, String and removal results. Holds on the executed histories only.",
         "Hash containers compared as multisets; nil and empty slices equal.",
         "DESIGN.md §4 C15"),
 "C16": ("aliasing monitor: scribble on returned slices, keep snapshots across mutations, scribble on passed slices, GetSortedValues purity",
         "Exploration: all 21 containers; every slice returned by Values()/Keys() is overwritten and appended to within capacity, earlier snapshots are kept across mutations incl. Sort/Clear/FromJSON, caller-owned slices with spare capacity go to every variadic constructor and inserter and are then overwritten, GetSortedValues(Func) must sort a copy. All judged through the full observer set incl. iteration order. Holds on the executed states only.",
         "Aliasing is judged through public observers only.",
         "DESIGN.md §4 C16"),
 "C17": ("child-process monitors: recover() panic monitor, per-call fstat on fd 1/2, per-case watchdog with replay confirmation; reflection-driven calls of every exported method with type-directed hostile arguments; whole cases borrowed from the workload generators of C01-C16 under the same monitors; liveness canaries",
         "Exploration: every exported method of every container, iterator, node and entry type (564 found by reflection) is called with hostile indices, empty/long variadics, absent keys, hostile JSON, the receiver itself, on empty and populated containers; plus the state-deep workloads of the other properties under the output monitor. A panic, a fatal error, a byte on stdout/stderr or a case that stops making progress (confirmed by replay) is a violation. Holds on the executed calls only.",
         "Documented use only (valid comparators, pure callbacks, iterator reads after successful moves); non-termination decided by a 60 s per-case watchdog confirmed by replay with 120 s.",
         "DESIGN.md §4 C17"),
 "C18": ("Go race detector (-race build) over concurrent read-only catalogues + sequential-answer comparison + state fingerprints; RWMutex histories checked in lock order and with porcupine",
         "Exploration: 2-32 goroutines run the whole read-only catalogue of each of the 21 containers concurrently with no monitor-side synchronisation between barrier and join; every race report with a library frame, every answer differing from the sequential one and every state change is a violation; reader/writer histories under a caller-side RWMutex are checked exactly (epoch order) and with porcupine. Holds on the executed accesses and histories only.",
         "Happens-before detector with bounded per-location history; encoding/json inside ToJSON adds ordering edges that cannot be removed.",
         "DESIGN.md §4 C18"),
}

PAR = ("; plus a second phase in which a deterministic selection of the same cases is re-run by a -race build, four cases at a time on goroutines "
       "in each of four processes, every goroutine using only containers it created (race reports with a library frame and monitor verdicts "
       "there = the library's instances are not independent; DESIGN.md section 9)")

def main():
    implemented = sorted(CHECKS)
    props = [json.loads(l)["id"] for l in open(os.path.join(HERE, "properties.jsonl"))]
    checks = []
    for pid in implemented:
        tech, text, note, ref = CHECKS[pid]
        checks.append({
            "property_id": pid,
            "quick_cmd": f"./check {pid} quick",
            "thorough_cmd": f"./check {pid} thorough",
            "evidence_file": f"/verif/evidence/{pid}.json",
            "replay_cmd_template": f"./check {pid} --replay {{path}}",
            "engine": "vmon",
            "level_claimed": {"category": "exploration", "text": text, "design_ref": ref},
            "level_note": note,
            "technique": tech + (PAR if pid not in ("C17", "C18") else ""),
        })
    na = [{"property_id": p, "reason": "runtime monitor for this property is not built yet (work in progress); the technique applies"} for p in props if p not in CHECKS]
    m = {
        "version": 1,
        "setup_cmd": "./setup.sh",
        "hooks": {
            "guard": "verif",
            "enable": "no hooks are needed: every monitor observes the public API (and the exported tree structure) from the harness module, which replaces github.com/emirpasic/gods/v2 by /repo; the build tag 'verif' is reserved and unused",
            "baseline_off_cmd": f"cd /repo && {ENV} && go test -vet=off -count=1 ./...",
            "source_commits": [],
            "add_only": True,
        },
        "engines": [{"name": "vmon", "path": "/verif/harness", "serves_properties": implemented,
                     "kind_free_text": "Go harness: parent/child process runner, online reference-model monitors, structure walkers, counting comparators, fd monitor, race detector + porcupine for C18, race detector over concurrent private instances for C01-C16; coverage counters of the library as evidence"}],
        "checks": checks,
        "not_applicable": na,
        "notes": "All checks rebuild the harness against /repo's working tree on every invocation (go build, replace directive). Exit 0 held / 1 violation (VIOLATION line with a replay file) / 3 inconclusive (INCONCLUSIVE line: a floor of observations was not met, a liveness canary was missed, or a watchdog firing did not reproduce). VERIF_SEED selects the PRNG seed; tiers are case counts, never time budgets; an explicit tier argument wins over VERIF_TIER. Known findings: KNOWN_FINDINGS.txt (11 defects of the pinned tree, all repaired by fix: commits in /repo; no open entry). Evidence of detection power: 94 development mutants (mutants/, selftest/) and >100 independently seeded breaking changes (seeded/), see DESIGN.md section 10.",
    }
    with open(os.path.join(HERE, "MANIFEST.json"), "w") as f:
        json.dump(m, f, indent=1)
        f.write("\n")

if __name__ == "__main__":
    main()
