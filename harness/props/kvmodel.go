package props

import (
	"sort"
)

// kvEnt is one live key class of the abstract map.
type kvEnt[K comparable, V comparable] struct {
	Key  K   // key of the most recent Put into this class
	Val  V   // value of the most recent Put
	Seen []K // every key Put into the class since it became live
}

// KVModel is the executable specification of a map: identity-keyed (hash
// containers) or comparator-class-keyed (tree containers; keys that compare
// equal are one key). Entries are kept in comparator order (class model) or
// insertion order (identity model).
type KVModel[K comparable, V comparable] struct {
	Cmp  func(a, b K) int
	Ents []kvEnt[K, V]
	idx  map[K]int // identity model: key -> position in Ents (rebuilt on remove)
}

func NewKVModel[K comparable, V comparable](cmp func(a, b K) int) *KVModel[K, V] {
	m := &KVModel[K, V]{Cmp: cmp}
	if cmp == nil {
		m.idx = map[K]int{}
	}
	return m
}

func (m *KVModel[K, V]) Len() int { return len(m.Ents) }

// find returns the position of k's class and whether it is live; for class
// models the position is the insertion point when absent.
func (m *KVModel[K, V]) find(k K) (int, bool) {
	if m.Cmp == nil {
		i, ok := m.idx[k]
		return i, ok
	}
	i := sort.Search(len(m.Ents), func(i int) bool { return m.Cmp(m.Ents[i].Key, k) >= 0 })
	if i < len(m.Ents) && m.Cmp(m.Ents[i].Key, k) == 0 {
		return i, true
	}
	return i, false
}

func (m *KVModel[K, V]) Get(k K) (V, bool) {
	if i, ok := m.find(k); ok {
		return m.Ents[i].Val, true
	}
	var z V
	return z, false
}

func (m *KVModel[K, V]) Has(k K) bool { _, ok := m.find(k); return ok }

// Put returns true when the key class was not live before.
func (m *KVModel[K, V]) Put(k K, v V) bool {
	i, ok := m.find(k)
	if ok {
		e := &m.Ents[i]
		e.Key, e.Val = k, v
		if len(e.Seen) < 8 {
			e.Seen = append(e.Seen, k)
		} else {
			e.Seen[len(e.Seen)-1] = k
		}
		return false
	}
	ent := kvEnt[K, V]{Key: k, Val: v, Seen: []K{k}}
	if m.Cmp == nil {
		m.idx[k] = len(m.Ents)
		m.Ents = append(m.Ents, ent)
		return true
	}
	m.Ents = append(m.Ents, ent)
	copy(m.Ents[i+1:], m.Ents[i:])
	m.Ents[i] = ent
	return true
}

// Remove returns true when a live class was removed.
func (m *KVModel[K, V]) Remove(k K) bool {
	i, ok := m.find(k)
	if !ok {
		return false
	}
	if m.Cmp == nil {
		delete(m.idx, k)
		m.Ents = append(m.Ents[:i], m.Ents[i+1:]...)
		for j := i; j < len(m.Ents); j++ {
			m.idx[m.Ents[j].Key] = j
		}
		return true
	}
	m.Ents = append(m.Ents[:i], m.Ents[i+1:]...)
	return true
}

func (m *KVModel[K, V]) Clear() {
	m.Ents = m.Ents[:0]
	if m.Cmp == nil {
		m.idx = map[K]int{}
	}
}

// seenIn reports whether key k was actually Put into class i.
func (m *KVModel[K, V]) seenIn(i int, k K) bool {
	e := &m.Ents[i]
	if identical(e.Key, k) {
		return true
	}
	for _, s := range e.Seen {
		if identical(s, k) {
			return true
		}
	}
	// Seen is capped; beyond the cap accept any comparator-equal key.
	return len(e.Seen) >= 8
}

// Floor returns the position of the greatest class <= k (class models only).
func (m *KVModel[K, V]) Floor(k K) (int, bool) {
	i, ok := m.find(k)
	if ok {
		return i, true
	}
	if i == 0 {
		return -1, false
	}
	return i - 1, true
}

// Ceiling returns the position of the least class >= k.
func (m *KVModel[K, V]) Ceiling(k K) (int, bool) {
	i, ok := m.find(k)
	if ok {
		return i, true
	}
	if i >= len(m.Ents) {
		return -1, false
	}
	return i, true
}

func (m *KVModel[K, V]) Keys() []K {
	ks := make([]K, len(m.Ents))
	for i := range m.Ents {
		ks[i] = m.Ents[i].Key
	}
	return ks
}
