#!/bin/bash
# selftest/run.sh <patch> [tier]  — apply one mutant patch to a scratch copy of /repo, run the repository's own
# suite on it, run the property's check against the copy, print one JSON line, delete the copy.
set -u
export GOFLAGS=-mod=mod GOPROXY=off GOSUMDB=off GOTOOLCHAIN=local
# every scratch copy lives under a new path, so each run adds a few hundred MB to the Go build cache: trim it when the disk runs low
if [ "$(df --output=avail -k / | tail -1)" -lt 40000000 ]; then go clean -cache; fi
PATCH="$(readlink -f "$1")"; TIER="${2:-quick}"
NAME="$(basename "$PATCH" .patch)"
PROP="$(head -1 "$PATCH" | sed -n 's/^# property: //p')"
[ -n "${3:-}" ] && PROP="$3"
S="$(mktemp -d /tmp/vmut.XXXXXX)"
trap 'rm -rf "$S"' EXIT
mkdir -p "$S/repo" "$S/out"
( cd /repo && git archive HEAD ) | tar -x -C "$S/repo"
if ! ( cd "$S/repo" && patch -p1 -s < "$PATCH" ); then echo "{\"mutant\":\"$NAME\",\"error\":\"patch does not apply\"}"; exit 0; fi
if ( cd "$S/repo" && go build ./... ) > "$S/build.log" 2>&1; then BUILD=true; else BUILD=false; fi
if ( cd "$S/repo" && go test -vet=off -count=1 ./... ) > "$S/test.log" 2>&1; then SUITE=pass; else SUITE=fail; fi
T0=$(date +%s.%N)
VERIF_REPO="$S/repo" VERIF_OUT="$S/out" /verif/check "$PROP" "$TIER" > "$S/check.log" 2>&1
RC=$?
T1=$(date +%s.%N)
SIGS=$(grep -a '^  sig:' "$S/check.log" | sed 's/^  sig: //' | head -5 | tr '\n' ';' | sed 's/"/\\"/g')
REPLAYOK=null
if [ $RC -eq 1 ]; then
  RP=$(grep -m1 '^VIOLATION' "$S/check.log" | sed 's/.*replay=//')
  VERIF_REPO="$S/repo" VERIF_OUT="$S/out" /verif/check "$PROP" --replay "$RP" > "$S/replay.log" 2>&1
  if [ $? -eq 1 ]; then REPLAYOK=true; else REPLAYOK=false; fi
  grep -q 'process level' "$S/replay.log" && REPLAYOK=null
fi
printf '{"mutant":"%s","property":"%s","tier":"%s","builds":%s,"repo_suite":"%s","check_exit":%d,"replay_reproduces":%s,"seconds":%.1f,"sigs":"%s"}\n' "$NAME" "$PROP" "$TIER" "$BUILD" "$SUITE" "$RC" "$REPLAYOK" "$(echo "$T1 - $T0" | bc)" "$SIGS"
[ $RC -ne 1 ] && tail -3 "$S/check.log" | sed 's/^/    /' >&2
exit 0
