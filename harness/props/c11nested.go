package props

import (
	"encoding/json"
	"reflect"
	"sort"

	"godsverif/core"

	"github.com/emirpasic/gods/v2/containers"
	"github.com/emirpasic/gods/v2/lists/arraylist"
	"github.com/emirpasic/gods/v2/lists/doublylinkedlist"
	"github.com/emirpasic/gods/v2/lists/singlylinkedlist"
	"github.com/emirpasic/gods/v2/maps/hashmap"
	"github.com/emirpasic/gods/v2/maps/linkedhashmap"
	"github.com/emirpasic/gods/v2/maps/treemap"
	"github.com/emirpasic/gods/v2/queues/arrayqueue"
	"github.com/emirpasic/gods/v2/queues/circularbuffer"
	"github.com/emirpasic/gods/v2/queues/linkedlistqueue"
	"github.com/emirpasic/gods/v2/sets/linkedhashset"
	"github.com/emirpasic/gods/v2/stacks/arraystack"
	"github.com/emirpasic/gods/v2/stacks/linkedliststack"
	"github.com/emirpasic/gods/v2/trees/avltree"
	"github.com/emirpasic/gods/v2/trees/btree"
	"github.com/emirpasic/gods/v2/trees/redblacktree"
)

// Containers of containers. The elements (map values) of the outer container
// are pointers to containers of the same package, which serialise themselves
// (MarshalJSON) while the outer ToJSON is still running: whatever a ToJSON
// keeps outside its own stack frame (a package-level scratch buffer, a pooled
// encoder) is re-entered. The oracle is compositional: the outer document must
// decode to the list / object of what the inner documents decode to.

var nestedKinds = []string{"ArrayList", "DoublyLinkedList", "SinglyLinkedList", "LinkedHashSet", "ArrayStack", "LinkedListStack", "ArrayQueue", "LinkedListQueue", "CircularBuffer",
	"HashMap", "LinkedHashMap", "TreeMap", "RedBlackTree", "BTree"}

type nestedInner interface {
	containers.JSONSerializer
}

func runC11Nested(c *core.Ctx, sel int) {
	r := c.R
	kind := nestedKinds[sel%len(nestedKinds)]
	n := r.Range(0, 5)
	inner := make([]nestedInner, n)
	keys := []string{"a", "b", "k1", "zz", "A", "10"}
	vals := func() []int { return IntDom(8).Vals(r, r.Range(0, 6)) }
	var outer containers.JSONSerializer
	isMap := false
	natural := func(a, b string) int { return strCmps[0].F(a, b) }
	switch kind {
	case "ArrayList":
		o := arraylist.New[*arraylist.List[int]]()
		for i := range inner {
			x := arraylist.New(vals()...)
			inner[i] = x
			o.Add(x)
		}
		outer = o
	case "DoublyLinkedList":
		o := doublylinkedlist.New[*doublylinkedlist.List[int]]()
		for i := range inner {
			x := doublylinkedlist.New(vals()...)
			inner[i] = x
			o.Add(x)
		}
		outer = o
	case "SinglyLinkedList":
		o := singlylinkedlist.New[*singlylinkedlist.List[int]]()
		for i := range inner {
			x := singlylinkedlist.New(vals()...)
			inner[i] = x
			o.Add(x)
		}
		outer = o
	case "LinkedHashSet":
		o := linkedhashset.New[*linkedhashset.Set[int]]()
		for i := range inner {
			x := linkedhashset.New(vals()...)
			inner[i] = x
			o.Add(x)
		}
		outer = o
	case "ArrayStack":
		o := arraystack.New[*arraystack.Stack[int]]()
		for i := range inner {
			x := arraystack.New[int]()
			for _, v := range vals() {
				x.Push(v)
			}
			inner[n-1-i] = x // a stack serialises top first
			o.Push(x)
		}
		outer = o
	case "LinkedListStack":
		o := linkedliststack.New[*linkedliststack.Stack[int]]()
		for i := range inner {
			x := linkedliststack.New[int]()
			for _, v := range vals() {
				x.Push(v)
			}
			inner[n-1-i] = x
			o.Push(x)
		}
		outer = o
	case "ArrayQueue":
		o := arrayqueue.New[*arrayqueue.Queue[int]]()
		for i := range inner {
			x := arrayqueue.New[int]()
			for _, v := range vals() {
				x.Enqueue(v)
			}
			inner[i] = x
			o.Enqueue(x)
		}
		outer = o
	case "LinkedListQueue":
		o := linkedlistqueue.New[*linkedlistqueue.Queue[int]]()
		for i := range inner {
			x := linkedlistqueue.New[int]()
			for _, v := range vals() {
				x.Enqueue(v)
			}
			inner[i] = x
			o.Enqueue(x)
		}
		outer = o
	case "CircularBuffer":
		o := circularbuffer.New[*circularbuffer.Queue[int]](n + 1)
		for i := range inner {
			x := circularbuffer.New[int](4)
			for _, v := range vals() {
				x.Enqueue(v)
			}
			inner[i] = x
			o.Enqueue(x)
		}
		outer = o
	default:
		isMap = true
		if n > len(keys) {
			n = len(keys)
		}
		inner = inner[:n]
		fillInner := func(put func(k string, v int)) {
			for _, v := range vals() {
				put(keys[r.Intn(len(keys))], v)
			}
		}
		switch kind {
		case "HashMap":
			o := hashmap.New[string, *hashmap.Map[string, int]]()
			for i := range inner {
				x := hashmap.New[string, int]()
				fillInner(x.Put)
				inner[i] = x
				o.Put(keys[i], x)
			}
			outer = o
		case "LinkedHashMap":
			o := linkedhashmap.New[string, *linkedhashmap.Map[string, int]]()
			for i := range inner {
				x := linkedhashmap.New[string, int]()
				fillInner(x.Put)
				inner[i] = x
				o.Put(keys[i], x)
			}
			outer = o
		case "TreeMap":
			o := treemap.NewWith[string, *treemap.Map[string, int]](natural)
			for i := range inner {
				x := treemap.NewWith[string, int](natural)
				fillInner(x.Put)
				inner[i] = x
				o.Put(keys[i], x)
			}
			outer = o
		case "RedBlackTree":
			o := redblacktree.NewWith[string, *redblacktree.Tree[string, int]](natural)
			for i := range inner {
				x := redblacktree.NewWith[string, int](natural)
				fillInner(x.Put)
				inner[i] = x
				o.Put(keys[i], x)
			}
			outer = o
		default:
			o := btree.NewWith[string, *btree.Tree[string, int]](3, natural)
			for i := range inner {
				x := btree.NewWith[string, int](3, natural)
				fillInner(x.Put)
				inner[i] = x
				o.Put(keys[i], x)
			}
			outer = o
		}
	}
	c.Begin(kind, "ToJSON", "of", len(inner), "containers of its own kind")
	rounds := 1 + r.Intn(3) // (a scratch buffer remembered between calls only misbehaves from the second call on)
	for round := 0; round < rounds; round++ {
		// what the parts denote, each serialised on its own
		var wantList []any
		wantMap := map[string]any{}
		for i, x := range inner {
			b, err := x.ToJSON()
			if err != nil {
				c.Fail("tojson", "error", "inner %s.ToJSON() returned %v", kind, err)
			}
			var v any
			if err := json.Unmarshal(b, &v); err != nil {
				c.Fail("tojson", "invalid", "inner %s.ToJSON() = %s is not valid JSON: %v", kind, b, err)
			}
			wantList = append(wantList, v)
			if isMap {
				wantMap[keys[i]] = v
			}
		}
		got, err := outer.ToJSON()
		if err != nil {
			c.Fail("tojson", "nested-error", "%s of %d %ss: ToJSON() returned %v", kind, len(inner), kind, err)
		}
		var gv any
		if err := json.Unmarshal(got, &gv); err != nil {
			c.Fail("tojson", "nested-invalid", "%s of %d %ss: ToJSON() = %s is not valid JSON: %v", kind, len(inner), kind, got, err)
		}
		var want any = wantList
		if isMap {
			want = wantMap
		} else if wantList == nil {
			want = []any{}
		}
		if kind == "ArrayStack" || kind == "LinkedListStack" {
			// (whether a stack is written top first or bottom first is the
			// serialiser's choice; the parts are compared as a multiset)
			byText := func(l []any) []any {
				out := append([]any{}, l...)
				sort.Slice(out, func(i, j int) bool {
					a, _ := json.Marshal(out[i])
					b, _ := json.Marshal(out[j])
					return string(a) < string(b)
				})
				return out
			}
			if gl, ok := gv.([]any); ok {
				gv = byText(gl)
			}
			want = byText(wantList)
		}
		if !reflect.DeepEqual(gv, want) {
			wb, _ := json.Marshal(want)
			c.Fail("tojson", "nested-content", "%s whose elements are %ss (call %d): ToJSON() = %s, the parts serialise to %s", kind, kind, round+1, got, wb)
		}
		c.Count("obs:nested-tojson", 1)
	}
	c.Nontrivial()
}

// runC11NullInside: map values that NEST and contain null somewhere inside
// (slices of pointers with nil entries, maps with nil values). A loader that
// walks the document token by token must not mistake such a null for anything
// else (json.Decoder.Token returns a nil token for null).
func runC11NullInside(c *core.Ctx, sel int) {
	r := c.R
	kinds := []string{"HashMap", "LinkedHashMap", "TreeMap", "RedBlackTree", "AVLTree", "BTree"}
	kind := kinds[sel%len(kinds)]
	natural := func(a, b string) int { return strCmps[0].F(a, b) }
	type V = []*int
	type api interface {
		Put(string, V)
		Size() int
		Keys() []string
		containers.JSONSerializer
		containers.JSONDeserializer
	}
	mk := func() api {
		switch kind {
		case "HashMap":
			return hashmap.New[string, V]()
		case "LinkedHashMap":
			return linkedhashmap.New[string, V]()
		case "TreeMap":
			return treemap.NewWith[string, V](natural)
		case "RedBlackTree":
			return redblacktree.NewWith[string, V](natural)
		case "AVLTree":
			return avltree.NewWith[string, V](natural)
		default:
			return btree.NewWith[string, V](3, natural)
		}
	}
	m := mk()
	keys := []string{"a", "b", "c", "d", "k1", "zz", "A"}
	for i, n := 0, r.Range(1, len(keys)); i < n; i++ {
		var v V
		for j, l := 0, r.Range(0, 4); j < l; j++ {
			if r.Intn(3) == 0 {
				v = append(v, nil)
			} else {
				x := r.Intn(50)
				v = append(v, &x)
			}
		}
		if r.Intn(5) == 0 {
			v = nil // a null at the top of the value too
		}
		m.Put(keys[i], v)
	}
	c.Begin(kind, "ToJSON", "values are slices of pointers, some nil")
	j1, err := m.ToJSON()
	if err != nil {
		c.Fail("tojson", "error", "%s.ToJSON() returned %v", kind, err)
	}
	f := mk()
	c.Begin(kind, "FromJSON", string(j1))
	if err := f.FromJSON(j1); err != nil {
		c.Fail("reload", "own-output-rejected", "%s.FromJSON rejects the container's own ToJSON output %s: %v", kind, j1, err)
	}
	j2, err := f.ToJSON()
	if err != nil {
		c.Fail("tojson", "error", "%s.ToJSON() of the reloaded container returned %v", kind, err)
	}
	var a1, a2 any
	json.Unmarshal(j1, &a1)
	json.Unmarshal(j2, &a2)
	if f.Size() != m.Size() || !reflect.DeepEqual(a1, a2) {
		c.Fail("reload", "not-equivalent", "%s with nulls inside its values: %s reloads as %s (Size %d vs %d)", kind, j1, j2, m.Size(), f.Size())
	}
	if kind != "HashMap" && !eqSlices(m.Keys(), f.Keys()) {
		c.Fail("reload", "order", "%s with nulls inside its values: keys %v reload as %v", kind, m.Keys(), f.Keys())
	}
	c.Count("obs:nulls-inside-values", 1)
	c.Nontrivial()
}
