#!/usr/bin/env python3
"""Regenerates /verif/MANIFEST.json from the table below (single source of truth for the interface)."""
import json, os, subprocess

HERE = os.path.dirname(os.path.dirname(os.path.abspath(__file__)))
ENV = "export GOFLAGS=-mod=mod GOPROXY=off GOSUMDB=off GOTOOLCHAIN=local"

# id -> (technique, level text, level note, design ref)
CHECKS = {
 "C03": ("online reference-model monitor (lockstep abstract sequence) over hostile randomized + swept list histories",
         "Exploration: every call of each generated history is made on the real ArrayList, SinglyLinkedList and DoublyLinkedList and on a Go-slice model; Values/Get/IndexOf/Contains/Size/Empty are compared after each call. Holds on the executed histories only (counts in the evidence file).",
         "Trusts the 60-line slice model and Go's runtime; element types int and string; Sort tie order is not constrained.",
         "DESIGN.md §4 C03"),
}

def main():
    implemented = sorted(CHECKS)
    props = [json.loads(l)["id"] for l in open(os.path.join(HERE, "properties.jsonl"))]
    checks = []
    for pid in implemented:
        tech, text, note, ref = CHECKS[pid]
        checks.append({
            "property_id": pid,
            "quick_cmd": f"./check {pid} quick",
            "thorough_cmd": f"./check {pid} thorough",
            "evidence_file": f"/verif/evidence/{pid}.json",
            "replay_cmd_template": f"./check {pid} --replay {{path}}",
            "engine": "vmon",
            "level_claimed": {"category": "exploration", "text": text, "design_ref": ref},
            "level_note": note,
            "technique": tech,
        })
    na = [{"property_id": p, "reason": "runtime monitor for this property is not built yet (work in progress); the technique applies"} for p in props if p not in CHECKS]
    m = {
        "version": 1,
        "setup_cmd": "./setup.sh",
        "hooks": {
            "guard": "verif",
            "enable": "no hooks are needed: every monitor observes the public API (and the exported tree structure) from the harness module, which replaces github.com/emirpasic/gods/v2 by /repo; the build tag 'verif' is reserved and unused",
            "baseline_off_cmd": f"cd /repo && {ENV} && go test -vet=off -count=1 ./...",
            "source_commits": [],
            "add_only": True,
        },
        "engines": [{"name": "vmon", "path": "/verif/harness", "serves_properties": implemented,
                     "kind_free_text": "Go harness: parent/child process runner, online reference-model monitors, structure walkers, counting comparators, fd monitor, race detector + porcupine for C18; coverage counters of the library as evidence"}],
        "checks": checks,
        "not_applicable": na,
        "notes": "All checks rebuild the harness against /repo's working tree on every invocation (go build, replace directive). Exit 0 held / 1 violation / 3 inconclusive. VERIF_SEED selects the PRNG seed; tiers are case counts.",
    }
    with open(os.path.join(HERE, "MANIFEST.json"), "w") as f:
        json.dump(m, f, indent=1)
        f.write("\n")

if __name__ == "__main__":
    main()
