package core

import (
	"encoding/json"
	"fmt"
	"os"
	"os/exec"
	"path/filepath"
	"strconv"
	"sync"
	"time"
)

// Coverage phase.
//
// Verdicts come from an UNINSTRUMENTED build of the harness and the library:
// `go build -cover` rewrites the library's source, and for a module that
// declares go 1.21 that changes what the program does (a closure capturing a
// loop variable in a `go func()` behaves per-iteration in the instrumented
// build and per-loop in the real one - found with a seeded change that the
// instrumented build was blind to). The coverage counters that the evidence
// files report are therefore collected separately: a deterministic sample of
// the same cases (every M-th by a hash of the index) is run once more by the
// instrumented build. Its verdicts count too.

func coverSample(tier string) int {
	if tier == "thorough" {
		return 32
	}
	return 8
}

// sampled reports whether case i belongs to the sample selected by VERIF_SAMPLE.
func sampled(i int) bool {
	m, err := strconv.Atoi(os.Getenv("VERIF_SAMPLE"))
	if err != nil || m <= 1 {
		return true
	}
	return Mix(uint64(i), 0xc07e)%uint64(m) == 0
}

func runCoverPhase(p *Prop, coverExe, tier string, seed uint64, n, w int, work string, budget time.Duration, run *RunInfo, addViol func(*Violation)) string {
	t0 := time.Now()
	cw := filepath.Join(work, "coverphase")
	os.MkdirAll(filepath.Join(cw, "cov"), 0o755)
	m := coverSample(tier)
	env := append(os.Environ(), "GOCOVERDIR="+filepath.Join(cw, "cov"), "VERIF_SAMPLE="+strconv.Itoa(m))
	if p.ChildEnv != nil {
		env = append(env, p.ChildEnv(cw)...)
	}
	timeout := 30 * time.Minute
	if tier == "thorough" {
		timeout = 4 * time.Hour
	}
	cmds := make([]*exec.Cmd, w)
	errs := make([]error, w)
	var wg sync.WaitGroup
	for k := 0; k < w; k++ {
		cmds[k] = childCmd(coverExe, p.ID, tier, seed, k, w, n, cw, -1, "", env, 4*budget)
		wg.Add(1)
		go func(k int) {
			defer wg.Done()
			errs[k] = runWithTimeout(cmds[k], timeout)
		}(k)
	}
	wg.Wait()
	cases := 0
	for k := 0; k < w; k++ {
		var res childResult
		b, err := os.ReadFile(filepath.Join(cw, fmt.Sprintf("result_%d.json", k)))
		if err != nil || json.Unmarshal(b, &res) != nil || !res.Done {
			run.Inconclusive = append(run.Inconclusive, fmt.Sprintf("coverage-phase child %d (instrumented build) did not complete: %v; stderr: %s", k, errs[k], oneLine(tailOf(filepath.Join(cw, fmt.Sprintf("err_%d", k)), 400), 400)))
			continue
		}
		cases += res.Cases
		for _, v := range res.Violations {
			v.Message = "(in the coverage phase: instrumented build) " + v.Message
			addViol(v)
		}
	}
	run.Extra["coverage_phase"] = map[string]any{
		"what":   "library_blocks is measured on a deterministic 1-in-" + strconv.Itoa(m) + " sample of the cases, re-run by a `go build -cover` build; all other numbers and the verdicts come from the uninstrumented build (instrumentation changes loop-variable capture semantics in the go 1.21 library; DESIGN.md section 9)",
		"cases":  cases,
		"wall_s": time.Since(t0).Seconds(),
	}
	return filepath.Join(cw, "cov")
}
