package props

import (
	"fmt"
	"math"

	"godsverif/core"

	"github.com/emirpasic/gods/v2/containers"
	"github.com/emirpasic/gods/v2/maps"
	"github.com/emirpasic/gods/v2/maps/hashbidimap"
	"github.com/emirpasic/gods/v2/maps/hashmap"
	"github.com/emirpasic/gods/v2/maps/linkedhashmap"
	"github.com/emirpasic/gods/v2/maps/treebidimap"
	"github.com/emirpasic/gods/v2/maps/treemap"
	"github.com/emirpasic/gods/v2/trees/avltree"
	"github.com/emirpasic/gods/v2/trees/btree"
	"github.com/emirpasic/gods/v2/trees/redblacktree"
)

// KV is a thin adapter of one key-value container onto what the monitors
// need. Optional members are nil where the container has no such operation.
type KV[K comparable, V comparable] struct {
	Name    string
	M       maps.Map[K, V]
	KCmp    func(a, b K) int // nil: keys identified by ==
	CmpName string
	Sorted  bool // Keys() ascend by KCmp
	Linked  bool // Keys() in insertion order
	Aligned bool // Values()[i] belongs to Keys()[i]
	// bidirectional maps
	GetKey       func(V) (K, bool)
	VCmp         func(a, b V) int // nil: values identified by ==
	ValuesSorted bool
	// navigation
	Floor, Ceiling func(K) (K, V, bool)
	Min, Max       []func() (K, V, bool) // every way the container offers to read its extremes
	Iter           func() containers.ReverseIteratorWithKey[K, V]
	// balance
	Walk  func(c *core.Ctx, kv *KV[K, V], n int)
	Count *int64
	Bound func(n int) float64
	Order int // B-tree order
	JSON  jsonAPI
	Fresh func() *KV[K, V]
	Raw   any
}

type jsonAPI interface {
	containers.JSONSerializer
	containers.JSONDeserializer
}

const stepBudget = 1000000

// counting wraps a comparator with a per-container call counter: the
// monitor's hook at the client boundary for C07. A single call that invokes it
// more than stepBudget times is reported as non-termination.
func counting[K any](f func(a, b K) int, n *int64) func(a, b K) int {
	return func(a, b K) int {
		*n++
		if *n > stepBudget {
			panic("comparator step budget exceeded (non-termination)")
		}
		outsideDomain(a, b)
		return f(a, b)
	}
}

// outsideDomain: a comparator is defined on the keys the caller uses. With
// pointer keys (PKDom) the harness never supplies nil, and a real comparator
// for such keys dereferences its arguments: a library that hands the
// comparator a value the caller never gave it - the zero value of K as a
// probe or placeholder - makes the caller's comparator crash. The harness's
// own comparators tolerate nil (the monitors may look at whatever comes
// back); the ones handed to the library go through here.
func outsideDomain[K any](a, b K) {
	if pa, ok := any(a).(*PK); ok {
		if pb, _ := any(b).(*PK); pa == nil || pb == nil {
			panic("the library called the comparator with a nil key, which the caller never supplied (a comparator need only be defined on the keys in use)")
		}
	}
}

// strictly wraps a comparator handed to the library without a call counter.
func strictly[K any](f func(a, b K) int) func(a, b K) int {
	return func(a, b K) int {
		outsideDomain(a, b)
		return f(a, b)
	}
}

func log2(x float64) float64 { return math.Log2(x) }

func newRBT[K comparable, V comparable](cm NamedCmp[K]) *KV[K, V] {
	return newRBTOn[K, V](cm, nil)
}

// newRBTOn: mk, if set, supplies a container made by the package's New (built-in comparator for ordered key types).
func newRBTOn[K comparable, V comparable](cm NamedCmp[K], mk func() any) *KV[K, V] {
	kv := &KV[K, V]{Name: "RedBlackTree", KCmp: cm.F, CmpName: cm.Name, Sorted: true, Aligned: true, Count: new(int64)}
	var t *redblacktree.Tree[K, V]
	if mk != nil {
		t = mk().(*redblacktree.Tree[K, V])
		kv.CmpName = "builtin"
	} else {
		t = redblacktree.NewWith[K, V](counting(cm.F, kv.Count))
	}
	kv.M, kv.JSON, kv.Raw = t, t, t
	kv.Floor = func(k K) (K, V, bool) {
		n, ok := t.Floor(k)
		if n == nil {
			var zk K
			var zv V
			return zk, zv, ok
		}
		return n.Key, n.Value, ok
	}
	kv.Ceiling = func(k K) (K, V, bool) {
		n, ok := t.Ceiling(k)
		if n == nil {
			var zk K
			var zv V
			return zk, zv, ok
		}
		return n.Key, n.Value, ok
	}
	kv.Min = []func() (K, V, bool){func() (k K, v V, ok bool) {
		if n := t.Left(); n != nil {
			return n.Key, n.Value, true
		}
		return
	}}
	kv.Max = []func() (K, V, bool){func() (k K, v V, ok bool) {
		if n := t.Right(); n != nil {
			return n.Key, n.Value, true
		}
		return
	}}
	kv.Iter = func() containers.ReverseIteratorWithKey[K, V] { return t.Iterator() }
	kv.Bound = func(n int) float64 { return 2*log2(float64(n)+1) + 2 }
	kv.Walk = func(c *core.Ctx, kv *KV[K, V], n int) { walkRBT(c, t, n) }
	kv.Fresh = func() *KV[K, V] { return newRBTOn[K, V](cm, mk) }
	return kv
}

func newAVL[K comparable, V comparable](cm NamedCmp[K]) *KV[K, V] {
	return newAVLOn[K, V](cm, nil)
}

// newAVLOn: mk, if set, supplies a container made by the package's New (built-in comparator for ordered key types).
func newAVLOn[K comparable, V comparable](cm NamedCmp[K], mk func() any) *KV[K, V] {
	kv := &KV[K, V]{Name: "AVLTree", KCmp: cm.F, CmpName: cm.Name, Sorted: true, Aligned: true, Count: new(int64)}
	var t *avltree.Tree[K, V]
	if mk != nil {
		t = mk().(*avltree.Tree[K, V])
		kv.CmpName = "builtin"
	} else {
		t = avltree.NewWith[K, V](counting(cm.F, kv.Count))
	}
	kv.M, kv.JSON, kv.Raw = t, t, t
	kv.Floor = func(k K) (K, V, bool) {
		n, ok := t.Floor(k)
		if n == nil {
			var zk K
			var zv V
			return zk, zv, ok
		}
		return n.Key, n.Value, ok
	}
	kv.Ceiling = func(k K) (K, V, bool) {
		n, ok := t.Ceiling(k)
		if n == nil {
			var zk K
			var zv V
			return zk, zv, ok
		}
		return n.Key, n.Value, ok
	}
	kv.Min = []func() (K, V, bool){func() (k K, v V, ok bool) {
		if n := t.Left(); n != nil {
			return n.Key, n.Value, true
		}
		return
	}}
	kv.Max = []func() (K, V, bool){func() (k K, v V, ok bool) {
		if n := t.Right(); n != nil {
			return n.Key, n.Value, true
		}
		return
	}}
	kv.Iter = func() containers.ReverseIteratorWithKey[K, V] { return t.Iterator() }
	kv.Bound = func(n int) float64 { return 1.45*log2(float64(n)+2) + 2 }
	kv.Walk = func(c *core.Ctx, kv *KV[K, V], n int) { walkAVL(c, t, n) }
	kv.Fresh = func() *KV[K, V] { return newAVLOn[K, V](cm, mk) }
	return kv
}

func newBTree[K comparable, V comparable](order int, cm NamedCmp[K]) *KV[K, V] {
	return newBTreeOn[K, V](order, cm, nil)
}

// newBTreeOn: mk, if set, supplies a container made by the package's New (built-in comparator for ordered key types).
func newBTreeOn[K comparable, V comparable](order int, cm NamedCmp[K], mk func() any) *KV[K, V] {
	kv := &KV[K, V]{Name: "BTree", KCmp: cm.F, CmpName: cm.Name, Sorted: true, Aligned: true, Count: new(int64), Order: order}
	var t *btree.Tree[K, V]
	if mk != nil {
		t = mk().(*btree.Tree[K, V])
		kv.CmpName = "builtin"
	} else {
		t = btree.NewWith[K, V](order, counting(cm.F, kv.Count))
	}
	kv.M, kv.JSON, kv.Raw = t, t, t
	kv.Min = []func() (K, V, bool){
		func() (k K, v V, ok bool) {
			if n := t.Left(); n != nil {
				return n.Entries[0].Key, n.Entries[0].Value, true
			}
			return
		},
		func() (k K, v V, ok bool) {
			lk, lv := t.LeftKey(), t.LeftValue()
			if lk == nil && lv == nil {
				return
			}
			if lk == nil || lv == nil {
				panic(fmt.Sprintf("BTree.LeftKey() = %v but LeftValue() = %v", lk, lv))
			}
			return lk.(K), lv.(V), true
		},
	}
	kv.Max = []func() (K, V, bool){
		func() (k K, v V, ok bool) {
			if n := t.Right(); n != nil {
				e := n.Entries[len(n.Entries)-1]
				return e.Key, e.Value, true
			}
			return
		},
		func() (k K, v V, ok bool) {
			rk, rv := t.RightKey(), t.RightValue()
			if rk == nil && rv == nil {
				return
			}
			if rk == nil || rv == nil {
				panic(fmt.Sprintf("BTree.RightKey() = %v but RightValue() = %v", rk, rv))
			}
			return rk.(K), rv.(V), true
		},
	}
	kv.Iter = func() containers.ReverseIteratorWithKey[K, V] { return t.Iterator() }
	m := float64(order)
	half := math.Ceil(m / 2)
	kv.Bound = func(n int) float64 {
		return 4 * (log2(m) + 1) * (log2(float64(n)+1)/log2(half) + 1)
	}
	kv.Walk = func(c *core.Ctx, kv *KV[K, V], n int) { walkBTree(c, t, order, n) }
	kv.Fresh = func() *KV[K, V] { return newBTreeOn[K, V](order, cm, mk) }
	return kv
}

func newTreeMap[K comparable, V comparable](cm NamedCmp[K]) *KV[K, V] {
	return newTreeMapOn[K, V](cm, nil)
}

// newTreeMapOn: mk, if set, supplies a container made by the package's New (built-in comparator for ordered key types).
func newTreeMapOn[K comparable, V comparable](cm NamedCmp[K], mk func() any) *KV[K, V] {
	kv := &KV[K, V]{Name: "TreeMap", KCmp: cm.F, CmpName: cm.Name, Sorted: true, Aligned: true, Count: new(int64)}
	var t *treemap.Map[K, V]
	if mk != nil {
		t = mk().(*treemap.Map[K, V])
		kv.CmpName = "builtin"
	} else {
		t = treemap.NewWith[K, V](counting(cm.F, kv.Count))
	}
	kv.M, kv.JSON, kv.Raw = t, t, t
	kv.Floor = t.Floor
	kv.Ceiling = t.Ceiling
	kv.Min = []func() (K, V, bool){t.Min}
	kv.Max = []func() (K, V, bool){t.Max}
	kv.Iter = func() containers.ReverseIteratorWithKey[K, V] { return t.Iterator() }
	kv.Fresh = func() *KV[K, V] { return newTreeMapOn[K, V](cm, mk) }
	return kv
}

func newHashMap[K comparable, V comparable]() *KV[K, V] {
	t := hashmap.New[K, V]()
	return &KV[K, V]{Name: "HashMap", M: t, JSON: t, Raw: t, Fresh: newHashMap[K, V]}
}

func newLinkedHashMap[K comparable, V comparable]() *KV[K, V] {
	t := linkedhashmap.New[K, V]()
	return &KV[K, V]{Name: "LinkedHashMap", M: t, JSON: t, Raw: t, Linked: true, Aligned: true,
		Iter:  func() containers.ReverseIteratorWithKey[K, V] { return t.Iterator() },
		Fresh: newLinkedHashMap[K, V]}
}

func newHashBidi[K comparable, V comparable]() *KV[K, V] {
	t := hashbidimap.New[K, V]()
	return &KV[K, V]{Name: "HashBidiMap", M: t, JSON: t, Raw: t, GetKey: t.GetKey, Fresh: newHashBidi[K, V]}
}

func newTreeBidi[K comparable, V comparable](kc NamedCmp[K], vc NamedCmp[V]) *KV[K, V] {
	return newTreeBidiOn[K, V](kc, vc, nil)
}

func newTreeBidiOn[K comparable, V comparable](kc NamedCmp[K], vc NamedCmp[V], mk func() any) *KV[K, V] {
	var t *treebidimap.Map[K, V]
	name := kc.Name + "/" + vc.Name
	if mk != nil {
		t = mk().(*treebidimap.Map[K, V])
		name = "builtin"
	} else {
		t = treebidimap.NewWith[K, V](strictly(kc.F), vc.F)
	}
	return &KV[K, V]{Name: "TreeBidiMap", M: t, JSON: t, Raw: t, KCmp: kc.F, VCmp: vc.F, CmpName: name, Sorted: true, ValuesSorted: true,
		GetKey: t.GetKey,
		Iter:   func() containers.ReverseIteratorWithKey[K, V] { return t.Iterator() },
		Fresh:  func() *KV[K, V] { return newTreeBidiOn[K, V](kc, vc, mk) }}
}

// ---- structure walkers (C07) ------------------------------------------------

func walkRBT[K comparable, V any](c *core.Ctx, t *redblacktree.Tree[K, V], size int) {
	if t.Root == nil {
		if size != 0 {
			c.Fail("shape", "node-count", "RedBlackTree has no root but Size() = %d", size)
		}
		return
	}
	if t.Root.Parent != nil {
		c.Fail("shape", "parent-link", "RedBlackTree Root.Parent is not nil")
	}
	count := 0
	minP, maxP := math.MaxInt, 0
	type fr struct {
		n *redblacktree.Node[K, V]
		d int
	}
	stack := []fr{{t.Root, 1}}
	for len(stack) > 0 {
		f := stack[len(stack)-1]
		stack = stack[:len(stack)-1]
		count++
		if count > size+1 {
			c.Fail("shape", "node-count", "RedBlackTree has more than Size() = %d reachable nodes", size)
		}
		for _, ch := range []*redblacktree.Node[K, V]{f.n.Left, f.n.Right} {
			if ch == nil {
				// a root-to-leaf path ends here (NIL leaf); its length is f.d nodes
				if f.d < minP {
					minP = f.d
				}
				if f.d > maxP {
					maxP = f.d
				}
				continue
			}
			if ch.Parent != f.n {
				c.Fail("shape", "parent-link", "RedBlackTree node %v is a child of %v but its Parent link points elsewhere", ch.Key, f.n.Key)
			}
			stack = append(stack, fr{ch, f.d + 1})
		}
	}
	if count != size {
		c.Fail("shape", "node-count", "RedBlackTree has %d reachable nodes but Size() = %d", count, size)
	}
	if maxP > 2*minP {
		c.Fail("shape", "path-ratio", "RedBlackTree with %d keys: longest root-to-leaf path has %d nodes, shortest %d (more than twice)", size, maxP, minP)
	}
	c.Count("walk:RedBlackTree", 1)
	if r := float64(maxP) / float64(minP); r > 1.5 {
		c.Count("walk:RedBlackTree-ratio>1.5", 1)
	}
}

func walkAVL[K comparable, V any](c *core.Ctx, t *avltree.Tree[K, V], size int) {
	var h func(n *avltree.Node[K, V], depth int) int
	h = func(n *avltree.Node[K, V], depth int) int {
		if n == nil {
			return 0
		}
		if depth > 200 {
			c.Fail("shape", "depth", "AVLTree deeper than 200 levels with %d keys", size)
		}
		l := h(n.Children[0], depth+1)
		r := h(n.Children[1], depth+1)
		if l-r > 1 || r-l > 1 {
			c.Fail("shape", "avl-balance", "AVLTree node %v: subtree heights %d and %d differ by more than one (%d keys)", n.Key, l, r, size)
		}
		if l > r {
			return l + 1
		}
		return r + 1
	}
	h(t.Root, 0)
	c.Count("walk:AVLTree", 1)
}

func walkBTree[K comparable, V any](c *core.Ctx, t *btree.Tree[K, V], m int, size int) {
	height := t.Height()
	if t.Root == nil {
		if height != 0 {
			c.Fail("shape", "height", "empty BTree reports Height() = %d", height)
		}
		c.Count("walk:BTree", 1)
		return
	}
	minKeys := (m+1)/2 - 1
	leafDepth := -1
	levels := 0
	var walk func(n *btree.Node[K, V], depth int)
	walk = func(n *btree.Node[K, V], depth int) {
		if depth > 64 {
			c.Fail("shape", "depth", "BTree deeper than 64 levels")
		}
		if depth > levels {
			levels = depth
		}
		if len(n.Children) > m {
			c.Fail("shape", "too-many-children", "BTree(order %d) node has %d children", m, len(n.Children))
		}
		if n != t.Root && len(n.Entries) < minKeys {
			c.Fail("shape", "underfull", "BTree(order %d) non-root node has %d keys, minimum is %d", m, len(n.Entries), minKeys)
		}
		if len(n.Children) > 0 && len(n.Entries) != len(n.Children)-1 {
			c.Fail("shape", "keys-vs-children", "BTree(order %d) node has %d children but %d keys", m, len(n.Children), len(n.Entries))
		}
		if len(n.Children) == 0 {
			if leafDepth == -1 {
				leafDepth = depth
			} else if leafDepth != depth {
				c.Fail("shape", "leaf-depth", "BTree(order %d) has leaves at depths %d and %d", m, leafDepth, depth)
			}
			return
		}
		for _, ch := range n.Children {
			if ch == nil {
				c.Fail("shape", "nil-child", "BTree(order %d) node has a nil child", m)
			}
			walk(ch, depth+1)
		}
	}
	walk(t.Root, 1)
	if height != levels {
		c.Fail("shape", "height", "BTree(order %d).Height() = %d but the tree has %d levels", m, height, levels)
	}
	c.Count("walk:BTree", 1)
	if levels >= 4 {
		c.Count("walk:BTree-height>=4", 1)
	}
}
