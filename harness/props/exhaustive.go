package props

import (
	"reflect"

	"godsverif/core"
)

// Small-scope exhaustive exploration of the three balanced trees: over a key
// universe of k keys, every state reachable from the empty tree by Put and
// Remove is visited (breadth first), and from every state every one of the 2k
// possible calls is made under the monitors. A state is identified by a deep
// fingerprint of the tree taken by reflection, including the unexported
// colour / balance-factor fields, so two trees with the same keys and shape
// but different hidden bookkeeping are different states. This is still
// runtime monitoring - every transition is an execution of the real code - but
// over this bounded universe nothing is left to chance.

// deepFP hashes the structure reachable from v, following every pointer
// except fields named Parent (which only mirror the child links).
func deepFP(v reflect.Value, depth int) uint64 {
	if depth > 200 {
		return 0xdead
	}
	switch v.Kind() {
	case reflect.Ptr, reflect.Interface:
		if v.IsNil() {
			return 0x9e37
		}
		return core.Mix(1, deepFP(v.Elem(), depth+1))
	case reflect.Struct:
		h := uint64(2)
		t := v.Type()
		for i := 0; i < v.NumField(); i++ {
			name := t.Field(i).Name
			if name == "Parent" || name == "Value" || name == "Comparator" || name == "tree" {
				continue
			}
			h = core.Mix(h, core.HashString(name), deepFP(v.Field(i), depth+1))
		}
		return h
	case reflect.Slice, reflect.Array:
		h := uint64(3 + v.Len())
		for i := 0; i < v.Len(); i++ {
			h = core.Mix(h, deepFP(v.Index(i), depth+1))
		}
		return h
	case reflect.Int, reflect.Int8, reflect.Int16, reflect.Int32, reflect.Int64:
		return core.Mix(4, uint64(v.Int()))
	case reflect.Uint, reflect.Uint8, reflect.Uint16, reflect.Uint32, reflect.Uint64:
		return core.Mix(5, v.Uint())
	case reflect.Bool:
		if v.Bool() {
			return 61
		}
		return 67
	case reflect.String:
		return core.Mix(7, core.HashString(v.String()))
	}
	return 8 // funcs etc. carry no state we track
}

type exOp struct {
	put bool
	key int
}

// exhaustiveTree explores every reachable state of the tree built by mk over
// keys 0,6,...,6(k-1). setup selects the oracles (Map/Nav/Balance); each is
// applied to every transition. onState, if set, is called once per distinct
// state with a tree in that state (C08 drives iterators there).
func exhaustiveTree(c *core.Ctx, label string, mk func() *KV[int, int], k int, maxStates int, setup func(m *KVMon[int, int]), onState func(a *KV[int, int])) {
	d := IntDom(k)
	build := func(path []exOp) (*KV[int, int], *KVMon[int, int]) {
		a := mk()
		m := NewKVMon(c, a, d)
		// replay without oracles (they ran when this path was first walked)
		for i, op := range path {
			if op.put {
				a.M.Put(op.key, i)
				m.Mod.Put(op.key, i)
			} else {
				a.M.Remove(op.key)
				m.Mod.Remove(op.key)
			}
		}
		return a, m
	}
	seen := map[uint64]bool{}
	a0, _ := build(nil)
	seen[deepFP(reflect.ValueOf(a0.Raw), 0)] = true
	if onState != nil {
		onState(a0)
	}
	queue := [][]exOp{nil}
	transitions := 0
	complete := true
	for len(queue) > 0 {
		path := queue[0]
		queue = queue[1:]
		for ki := 0; ki < k; ki++ {
			for _, put := range []bool{true, false} {
				op := exOp{put, ki * 6}
				a, m := build(path)
				setup(m)
				if put {
					m.Put(op.key, len(path))
				} else {
					m.Remove(op.key)
				}
				transitions++
				fp := deepFP(reflect.ValueOf(a.Raw), 0)
				if !seen[fp] {
					if len(seen) >= maxStates {
						complete = false
						continue
					}
					seen[fp] = true
					np := append(append([]exOp(nil), path...), op)
					queue = append(queue, np)
					if onState != nil {
						onState(a)
					}
				}
			}
		}
	}
	c.Count("exhaustive:"+label+":states", len(seen))
	c.Count("exhaustive:"+label+":transitions", transitions)
	if complete {
		c.Count("exhaustive:"+label+":closed", 1)
	} else {
		c.Count("exhaustive:"+label+":state-cap-hit", 1)
	}
	c.Nontrivial()
}

// exhaustivePlan lists the (tree, configuration, universe size) combinations;
// quick runs the smaller universes, thorough the larger ones too.
type exPlan struct {
	label string
	mk    func() *KV[int, int]
	k     int
}

func exhaustivePlans(tier string) []exPlan {
	nat := intCmps[0]
	rev := intCmps[1]
	var out []exPlan
	add := func(label string, mk func() *KV[int, int], ks ...int) {
		for _, k := range ks {
			out = append(out, exPlan{label + "/k=" + itoa(k), mk, k})
		}
	}
	rbK, avlK, btK := []int{5, 6, 7, 8}, []int{5, 6, 7, 8}, []int{6, 7, 8, 9}
	orders := []int{3, 4, 5, 6}
	if tier == "thorough" {
		rbK, avlK, btK = []int{5, 6, 7, 8, 9, 10}, []int{5, 6, 7, 8, 9, 10}, []int{6, 7, 8, 9, 10, 11}
		orders = []int{3, 4, 5, 6, 7, 8}
	}
	add("RedBlackTree", func() *KV[int, int] { return newRBT[int, int](nat) }, rbK...)
	add("RedBlackTree(reversed)", func() *KV[int, int] { return newRBT[int, int](rev) }, 6)
	add("AVLTree", func() *KV[int, int] { return newAVL[int, int](nat) }, avlK...)
	add("AVLTree(reversed)", func() *KV[int, int] { return newAVL[int, int](rev) }, 6)
	for _, order := range orders {
		order := order
		add("BTree(order "+itoa(order)+")", func() *KV[int, int] { return newBTree[int, int](order, nat) }, btK...)
	}
	return out
}

// exhaustiveFloors: every planned universe must have been explored to closure.
func exhaustiveFloors(tier string, f *floorCheck) {
	for _, p := range exhaustivePlans(tier) {
		f.atLeast("exhaustive:"+p.label+":closed", 1)
	}
}
