#!/bin/bash
# selftest/seeded.sh <dir-with-changeK.diff+demoK> <K> <PROP> [tier] [extra props...]
# Confirms an independently written breaking change: applies it to a scratch copy of /repo, checks that it builds and that
# the repository suite still passes, runs its demonstration with and without the change, then runs the property's check
# against the copy. Prints one JSON line. Nothing is applied to /repo itself.
set -u
export GOFLAGS=-mod=mod GOPROXY=off GOSUMDB=off GOTOOLCHAIN=local
# every scratch copy lives under a new path, so each run adds a few hundred MB to the Go build cache: trim it when the disk runs low
if [ "$(df --output=avail -k / | tail -1)" -lt 40000000 ]; then go clean -cache; fi
SRC="$(readlink -f "$1")"; K="$2"; PROP="$3"; TIER="${4:-quick}"
DIFF="$SRC/change$K.diff"; [ -f "$DIFF" ] || DIFF="$SRC/patch.diff"
S="$(mktemp -d /tmp/vseed.XXXXXX)"
trap 'rm -rf "$S"' EXIT
mkdir -p "$S/mut" "$S/clean" "$S/out"
( cd /repo && git archive HEAD ) | tar -x -C "$S/mut"
( cd /repo && git archive HEAD ) | tar -x -C "$S/clean"
if ! ( cd "$S/mut" && patch -p1 -s < "$DIFF" ) > "$S/patch.log" 2>&1; then echo "{\"change\":\"$PROP/$K\",\"error\":\"patch does not apply\"}"; cat "$S/patch.log" >&2; exit 0; fi
if ( cd "$S/mut" && go build ./... ) > "$S/build.log" 2>&1; then BUILD=true; else BUILD=false; fi
if ( cd "$S/mut" && go test -vet=off -count=1 ./... ) > "$S/test.log" 2>&1; then SUITE=pass; else SUITE=fail; fi
# demonstration
DEMO_MUT=na; DEMO_CLEAN=na
run_demo() { # $1 = tree
  local T="$1"
  if [ -f "$SRC/demo${K}_test.go" ] || [ -f "$SRC/demo_test.go" ]; then
    local F="$SRC/demo${K}_test.go"; [ -f "$F" ] || F="$SRC/demo_test.go"
    local PKG; PKG=$(grep -m1 '^package ' "$F" | awk '{print $2}' | sed 's/_test$//')
    local DIR; DIR=$(cd "$T" && find . -type d -name "$PKG" -not -path './examples/*' | head -1)
    [ -z "$DIR" ] && { echo "nodir"; return; }
    cp "$F" "$T/$DIR/zz_demo${K}_test.go"
    local RACE=""; grep -q "go test -race\|-race" "$SRC/change$K.md" "$SRC/meta.json" 2>/dev/null && RACE="-race"
    if ( cd "$T/$DIR" && timeout 300 go test $RACE -vet=off -count=1 -run 'Demo|Seed|Break|Change|Test' . ) > "$T/demo.log" 2>&1; then echo pass; else echo fail; fi
    rm -f "$T/$DIR/zz_demo${K}_test.go"
  elif [ -f "$SRC/demo$K/main.go" ] || [ -f "$SRC/demo/main.go" ]; then
    local D="$SRC/demo$K"; [ -d "$D" ] || D="$SRC/demo"
    mkdir -p "$T/zz_demo$K"; cp "$D"/*.go "$T/zz_demo$K/"
    local RACE=""; grep -q "\-race" "$SRC/change$K.md" "$SRC/meta.json" 2>/dev/null && RACE="-race"
    if ( cd "$T" && timeout 300 go run $RACE ./zz_demo$K ) > "$T/demo.log" 2>&1; then echo pass; else echo fail; fi
    rm -rf "$T/zz_demo$K"
  else echo nodemo; fi
}
DEMO_MUT=$(run_demo "$S/mut")
DEMO_CLEAN=$(run_demo "$S/clean")
shift 4 2>/dev/null || shift $#
RES=""
for P in $PROP "$@"; do
  T0=$(date +%s)
  VERIF_REPO="$S/mut" VERIF_OUT="$S/out" /verif/check "$P" "$TIER" > "$S/check_$P.log" 2>&1
  RC=$?
  T1=$(date +%s)
  SIGS=$(grep -a '^  sig:' "$S/check_$P.log" | sed 's/^  sig: //' | head -4 | tr '\n' ';' | sed 's/\\/\\\\/g; s/"/\\"/g')
  RES="$RES{\"check\":\"$P\",\"exit\":$RC,\"seconds\":$((T1-T0)),\"sigs\":\"$SIGS\"},"
  [ $RC -ne 1 ] && tail -2 "$S/check_$P.log" | sed 's/^/    /' >&2
done
printf '{"change":"%s/%s","builds":%s,"repo_suite":"%s","demo_with_change":"%s","demo_without_change":"%s","tier":"%s","checks":[%s]}\n' "$PROP" "$K" "$BUILD" "$SUITE" "$DEMO_MUT" "$DEMO_CLEAN" "$TIER" "${RES%,}"
