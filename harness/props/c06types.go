package props

import (
	"cmp"
	"encoding/json"
	"math"

	"godsverif/core"

	"github.com/emirpasic/gods/v2/containers"
	"github.com/emirpasic/gods/v2/queues/priorityqueue"
	"github.com/emirpasic/gods/v2/trees/binaryheap"
)

// Heaps and priority queues over element types other than the {P, ID} struct
// of the main monitor. A heap never needs to know whether two elements are the
// same - only the comparator speaks - so it must work for
//   - interface elements whose dynamic type is not comparable (== panics),
//   - floats, where == is neither reflexive (NaN) nor discriminating (-0 == +0
//     although they are different elements),
//   - pointers incl. nil,
//   - structs with an omit-when-empty JSON field (a decoder that reuses its
//     target inherits the previous element's field),
// and the constructors without a comparator argument must order every value
// of an ordered type naturally.

type heapDom[T comparable] struct {
	name string
	gen  func(r *core.R, seq int) T
	id   func(T) uint64 // identity of an element for the multiset
	cmp  func(a, b T) int
	mkH  func() *binaryheap.Heap[T]
	mkQ  func() *priorityqueue.Queue[T]
	json bool // FromJSON of documents produced by json.Marshal is meaningful
	show func(T) any
}

func anySliceCmp(a, b any) int { return cmp.Compare(a.([]int)[0], b.([]int)[0]) }

func heapDomAnySlice() *heapDom[any] {
	return &heapDom[any]{name: "any([]int)",
		gen:  func(r *core.R, seq int) any { return []int{r.Intn(9), seq} },
		id:   func(v any) uint64 { return uint64(v.([]int)[1]) },
		cmp:  anySliceCmp,
		mkH:  func() *binaryheap.Heap[any] { return binaryheap.NewWith[any](anySliceCmp) },
		mkQ:  func() *priorityqueue.Queue[any] { return priorityqueue.NewWith[any](anySliceCmp) },
		show: func(v any) any { return v }}
}

var heapFloats = []float64{math.NaN(), math.Inf(-1), math.Inf(1), 0, math.Copysign(0, -1), 0, math.Copysign(0, -1), 1.5, -2.25, 3, 3, 1e300, 0.5}

func heapDomFloat(builtin bool) *heapDom[float64] {
	fc := func(a, b float64) int { return cmp.Compare(a, b) }
	d := &heapDom[float64]{name: "float64",
		gen:  func(r *core.R, seq int) float64 { return heapFloats[r.Intn(len(heapFloats))] },
		id:   func(v float64) uint64 { return math.Float64bits(v) },
		cmp:  fc,
		mkH:  func() *binaryheap.Heap[float64] { return binaryheap.NewWith[float64](fc) },
		mkQ:  func() *priorityqueue.Queue[float64] { return priorityqueue.NewWith[float64](fc) },
		show: func(v float64) any { return v }}
	if builtin {
		d.name = "float64(New)"
		d.mkH = func() *binaryheap.Heap[float64] { return binaryheap.New[float64]() }
		d.mkQ = func() *priorityqueue.Queue[float64] { return priorityqueue.New[float64]() }
	}
	return d
}

func heapDomInt() *heapDom[int] {
	return &heapDom[int]{name: "int(New)", json: true,
		gen: func(r *core.R, seq int) int {
			return []int{0, 1, 2, 3, 5, 8, -1, -7, math.MinInt, math.MaxInt, 1 << 40, 100}[r.Intn(12)]
		},
		id:   func(v int) uint64 { return uint64(v) },
		cmp:  func(a, b int) int { return cmp.Compare(a, b) },
		mkH:  func() *binaryheap.Heap[int] { return binaryheap.New[int]() },
		mkQ:  func() *priorityqueue.Queue[int] { return priorityqueue.New[int]() },
		show: func(v int) any { return v }}
}

func heapDomString() *heapDom[string] {
	return &heapDom[string]{name: "string(New)", json: true,
		gen:  func(r *core.R, seq int) string { return strAlphabet[r.Intn(len(strAlphabet))] },
		id:   func(v string) uint64 { return core.HashString(v) },
		cmp:  func(a, b string) int { return cmp.Compare(a, b) },
		mkH:  func() *binaryheap.Heap[string] { return binaryheap.New[string]() },
		mkQ:  func() *priorityqueue.Queue[string] { return priorityqueue.New[string]() },
		show: func(v string) any { return v }}
}

func heapDomPtr() *heapDom[*PS] {
	idx := func(p *PS) uint64 {
		for i, q := range psPool {
			if p == q {
				return uint64(i)
			}
		}
		return 999
	}
	return &heapDom[*PS]{name: "pointer",
		gen:  func(r *core.R, seq int) *PS { return psPool[r.Intn(len(psPool))] },
		id:   idx,
		cmp:  psCmp,
		mkH:  func() *binaryheap.Heap[*PS] { return binaryheap.NewWith[*PS](psCmp) },
		mkQ:  func() *priorityqueue.Queue[*PS] { return priorityqueue.NewWith[*PS](psCmp) },
		show: func(p *PS) any { return idx(p) }}
}

func heapDomJ() *heapDom[J] {
	byN := func(a, b J) int { return cmp.Compare(a.N, b.N) }
	return &heapDom[J]{name: "json-struct", json: true,
		gen: func(r *core.R, seq int) J {
			if r.Bool() {
				return J{N: r.Intn(7)}
			}
			return J{N: r.Intn(7), Tag: "t" + itoa(seq%5)}
		},
		id:   func(v J) uint64 { return core.Mix(uint64(v.N), core.HashString(v.Tag)) },
		cmp:  byN,
		mkH:  func() *binaryheap.Heap[J] { return binaryheap.NewWith[J](byN) },
		mkQ:  func() *priorityqueue.Queue[J] { return priorityqueue.NewWith[J](byN) },
		show: func(v J) any { return v }}
}

type heapAPI[T comparable] struct {
	name string
	c    containers.Container[T]
	push func(...T)
	pop  func() (T, bool)
	peek func() (T, bool)
	iter func() containers.ReverseIteratorWithIndex[T]
	js   jsonAPI
}

// runHeapTypes drives one heap or queue of the domain under a multiset model
// keyed by element identity.
func runHeapTypes[T comparable](c *core.Ctx, d *heapDom[T], queue bool) {
	r := c.R
	var a heapAPI[T]
	if queue {
		q := d.mkQ()
		a = heapAPI[T]{"PriorityQueue", q, func(vs ...T) {
			for _, v := range vs {
				q.Enqueue(v)
			}
		}, q.Dequeue, q.Peek, func() containers.ReverseIteratorWithIndex[T] { return q.Iterator() }, q}
	} else {
		h := d.mkH()
		a = heapAPI[T]{"BinaryHeap", h, h.Push, h.Pop, h.Peek, func() containers.ReverseIteratorWithIndex[T] { return h.Iterator() }, h}
	}
	c.Begin(a.name, "New", d.name)
	c.Count("heaptypes:"+d.name, 1)
	set := map[uint64]int{}
	rep := map[uint64]T{}
	n, seq := 0, 0
	shows := func(vs []T) []any {
		out := make([]any, len(vs))
		for i, v := range vs {
			out[i] = d.show(v)
		}
		return out
	}
	minimal := func(e T) (T, bool) {
		for id, k := range set {
			if k > 0 && d.cmp(rep[id], e) < 0 {
				return rep[id], false
			}
		}
		return e, true
	}
	perm := func(what string, vs []T) {
		if len(vs) != n {
			c.Fail(what, "length", "%s[%s] %s has %d elements, multiset holds %d", a.name, d.name, what, len(vs), n)
		}
		seen := map[uint64]int{}
		for _, v := range vs {
			id := d.id(v)
			seen[id]++
			if seen[id] > set[id] {
				c.Fail(what, "not-a-permutation", "%s[%s] %s lists %v more often than it is contained (%d): %s", a.name, d.name, what, d.show(v), set[id], short(shows(vs)))
			}
		}
	}
	check := func() {
		if !c.Observe() {
			return
		}
		if sz := a.c.Size(); sz != n {
			c.Fail("size", "", "%s[%s].Size() = %d, multiset holds %d", a.name, d.name, sz, n)
		}
		p, ok := a.peek()
		if n == 0 {
			if ok {
				c.Fail("peek", "empty", "%s[%s].Peek() reports an element on an empty container", a.name, d.name)
			}
		} else {
			if !ok || set[d.id(p)] == 0 {
				c.Fail("peek", "not-a-member", "%s[%s].Peek() = (%v,%v), not a contained element", a.name, d.name, d.show(p), ok)
			}
			if x, min := minimal(p); !min {
				c.Fail("peek", "not-minimal", "%s[%s].Peek() = %v although contained element %v precedes it", a.name, d.name, d.show(p), d.show(x))
			}
		}
		if n > 40 && r.Intn(16) != 0 {
			return
		}
		vs := a.c.Values()
		perm("values", vs)
		var walk []T
		for it := a.iter(); it.Next() && len(walk) <= n; {
			walk = append(walk, it.Value())
		}
		perm("iteration", walk)
		c.Count("heap:values+iteration", 1)
	}
	add := func(vs []T) {
		for _, v := range vs {
			id := d.id(v)
			set[id]++
			rep[id] = v
			n++
		}
	}
	pop := func() {
		c.Begin(a.name, "Pop")
		e, ok := a.pop()
		if n == 0 {
			if ok {
				c.Fail("pop", "empty", "%s[%s].Pop() on empty reports an element", a.name, d.name)
			}
			return
		}
		id := d.id(e)
		if !ok || set[id] == 0 {
			c.Fail("pop", "not-a-member", "%s[%s].Pop() = (%v,%v), which is not a contained element (lost, duplicated or altered)", a.name, d.name, d.show(e), ok)
		}
		if x, min := minimal(e); !min {
			c.Fail("pop", "not-minimal", "%s[%s].Pop() = %v although contained element %v precedes it", a.name, d.name, d.show(e), d.show(x))
		}
		set[id]--
		n--
		c.Count("heap:pop", 1)
	}
	gen := func(k int) []T {
		vs := make([]T, k)
		for i := range vs {
			seq++
			vs[i] = d.gen(r, seq)
		}
		return vs
	}
	steps := r.Range(20, 200)
	for s := 0; s < steps; s++ {
		switch r.Pick(30, 12, 30, 1, btoi(d.json)*6) {
		case 0:
			vs := gen(1)
			c.Begin(a.name, "Push", shows(vs))
			a.push(vs...)
			add(vs)
		case 1:
			vs := gen(bulkCounts[r.Intn(len(bulkCounts))])
			c.Begin(a.name, "Push", shows(vs))
			a.push(vs...)
			add(vs)
		case 2:
			pop()
		case 3:
			c.Begin(a.name, "Clear")
			a.c.Clear()
			set, n = map[uint64]int{}, 0
		default:
			// a document as the library's own ToJSON / json.Marshal writes it
			// (fields omitted when empty), sometimes with a null entry; what it
			// denotes is what encoding/json decodes into a fresh []T
			vs := gen(r.Range(0, 12))
			data, err := json.Marshal(vs)
			if err != nil {
				continue
			}
			if len(vs) > 1 && r.Intn(4) == 0 {
				data = append(append([]byte("[null,"), data[1:len(data)-1]...), []byte(",null]")...)
			}
			var want []T
			if json.Unmarshal(data, &want) != nil {
				continue
			}
			c.Begin(a.name, "FromJSON", string(data))
			if err := a.js.FromJSON(data); err != nil {
				c.Fail("fromjson", "error", "%s[%s].FromJSON(%s) returned %v", a.name, d.name, data, err)
			}
			set, n = map[uint64]int{}, 0
			add(want)
			c.Count("heaptypes:fromjson", 1)
		}
		check()
	}
	c.ObserveNow()
	check()
	var prev T
	first := true
	for n > 0 {
		c.Begin(a.name, "Pop")
		e, ok := a.pop()
		id := d.id(e)
		if !ok || set[id] == 0 {
			c.Fail("drain", "not-a-member", "%s[%s] drain yields (%v,%v), not a contained element", a.name, d.name, d.show(e), ok)
		}
		if !first && d.cmp(prev, e) > 0 {
			c.Fail("drain", "decreasing", "%s[%s] drain yields %v after %v", a.name, d.name, d.show(e), d.show(prev))
		}
		set[id]--
		n--
		prev, first = e, false
	}
	if _, ok := a.pop(); ok {
		c.Fail("drain", "extra", "%s[%s] yields an element after all contained ones were drained", a.name, d.name)
	}
	c.Count("heap:drained", 1)
	c.Nontrivial()
}

func runC06Types(c *core.Ctx, sel int) {
	queue := (sel/7)%2 == 1
	switch sel % 7 {
	case 0:
		runHeapTypes(c, heapDomAnySlice(), queue)
	case 1:
		runHeapTypes(c, heapDomFloat(false), queue)
	case 2:
		runHeapTypes(c, heapDomFloat(true), queue)
	case 3:
		runHeapTypes(c, heapDomInt(), queue)
	case 4:
		runHeapTypes(c, heapDomString(), queue)
	case 5:
		runHeapTypes(c, heapDomPtr(), queue)
	default:
		runHeapTypes(c, heapDomJ(), queue)
	}
}

var heapTypeNames = []string{"any([]int)", "float64", "float64(New)", "int(New)", "string(New)", "pointer", "json-struct"}
