module godsverif

go 1.22

require (
	github.com/anishathalye/porcupine v1.3.0
	github.com/emirpasic/gods/v2 v2.0.0
)

replace github.com/emirpasic/gods/v2 => /repo
