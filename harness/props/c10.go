package props

import (
	"godsverif/core"
)

// runC10: both bidirectional maps over 4-6 keys x 4-6 values so that all four
// collision kinds (same key new value, new key same value, both, exact
// repeat) occur constantly; every key and value of the alphabets is probed in
// both directions after every call.
func runBidiCase[K comparable](c *core.Ctx, kind string, d *Dom[K]) {
	a := newKVByKind(c, kind, d)
	m := NewKVMon(c, a, d)
	m.Bidi = true
	c.SetGaps((c.Index/8)%2 == 1)
	nv := c.R.Range(4, 6)
	if len(d.Alpha) >= 8 && len(d.Alpha) <= 50 {
		nv = len(d.Alpha) + c.R.Range(-2, 2)
	}
	if len(d.Alpha) > 50 {
		nv = len(d.Alpha) // wide cases: both trees get deep, deletions hit inner nodes
	}
	var vals []int
	for i := 0; i < nv; i++ {
		vals = append(vals, i*6)
	}
	m.VD = append(append([]int(nil), vals...), 3, -6)
	r := c.R
	steps := r.Range(30, 250)
	if nv > 50 {
		steps = 1500
		m.VD = append([]int(nil), vals[:12]...)
		m.VD = append(m.VD, 3, -6)
	}
	for s := 0; s < steps; s++ {
		switch r.Pick(55, 25, 10, 8, 2, 2) {
		case 0:
			k, v := d.Val(r), vals[r.Intn(nv)]
			kp := m.Mod.Has(k)
			_, vp := m.Inv.Get(v)
			cur, _ := m.Mod.Get(k)
			switch {
			case kp && vp && m.sameVal(cur, v):
				c.Count("bidi:collision-exact-repeat", 1)
			case kp && vp:
				c.Count("bidi:collision-both", 1)
			case kp:
				c.Count("bidi:collision-same-key-new-value", 1)
			case vp:
				c.Count("bidi:collision-new-key-same-value", 1)
			default:
				c.Count("bidi:no-collision", 1)
			}
			m.Put(k, v)
		case 1:
			if m.n() > 0 && r.Chance(3, 4) {
				m.Remove(m.Mod.Ents[r.Intn(m.n())].Key)
			} else {
				m.Remove(d.Val(r))
			}
		case 2:
			m.Remove(d.Probe[r.Intn(len(d.Probe))])
		case 3:
			if r.Bool() {
				m.GetKey()
			} else {
				m.Get(d.AnyVal(r))
			}
		case 5:
			m.ReloadForeignBidi()
		default:
			if nv > 50 {
				m.Get(d.AnyVal(r)) // a Clear every ~50 calls would keep a wide map small
			} else {
				m.Clear()
			}
		}
	}
	if nv > 50 {
		c.Count("bidi:wide-cases", 1)
	}
	m.Final()
	c.Nontrivial()
}

// runBidiPeakDrain: more than a thousand pairs, then a drain through a
// quarter and an eighth of the peak in which removals alternate with Puts that
// collide on both sides (key present, value held by another key): shrink and
// compaction policies fire in the middle of such a Put.
func runBidiPeakDrain(c *core.Ctx, kind string) {
	r := c.R
	n := r.Range(1100, 2600)
	d := IntDom(n)
	a := newKVByKind(c, kind, d)
	if a.KCmp != nil { // total orders only: n distinct keys and values
		a = newTreeBidi[int, int](intCmps[[]int{0, 1, 3}[r.Intn(3)]], intCmps[[]int{0, 1, 3}[r.Intn(3)]])
	}
	m := NewKVMon(c, a, d)
	m.Bidi = true
	m.VD = []int{0, 6, 12, 18, 24, 3, -6}
	c.SetGapMax(40)
	for i := 0; i < n; i++ {
		m.Put(i*6, i*6)
	}
	for m.n() > n/10 {
		switch r.Pick(50, 35, 15) {
		case 0:
			m.Remove(m.Mod.Ents[r.Intn(m.n())].Key)
		case 1:
			// key of one live pair, value of another live pair
			k := m.Mod.Ents[r.Intn(m.n())].Key
			v := m.Mod.Ents[r.Intn(m.n())].Val
			m.Put(k, v)
		default:
			m.GetKey()
		}
	}
	m.Final()
	c.Count("bidi:peak-drain-cases", 1)
	c.Nontrivial()
}

func runC10(c *core.Ctx) {
	if c.Index < 3 {
		runHugeHash(c, 2) // HashBidiMap beyond 4096 pairs: both directions, mass removal, Clear
		return
	}
	kind := []string{"HashBidiMap", "TreeBidiMap"}[c.Index%2]
	if (c.Index/2)%499 == 33 {
		runBidiPeakDrain(c, kind)
		return
	}
	if (c.Index/2)%101 == 17 {
		runBidiCase(c, kind, IntDom(c.R.Range(100, 300)))
		return
	}
	if (c.Index/2)%37 == 5 && kind == "TreeBidiMap" {
		// float keys incl. NaN, the infinities and both zeros (one key each
		// under cmp.Compare), on maps built by New and by NewWith
		c.Count("keytype:float", 1)
		runBidiCase(c, kind, FKeyDom(c.R.Range(4, 6)))
		return
	}
	if (c.Index/2)%4 == 3 {
		runBidiCase(c, kind, StrDom(c.R.Range(4, 6)))
		return
	}
	if (c.Index/2)%4 == 2 {
		// a dozen keys and values: trees three levels deep, values that jump
		// across an ancestor, collisions still frequent
		c.Count("bidi:medium-domains", 1)
		runBidiCase(c, kind, IntDom(c.R.Range(8, 16)))
		return
	}
	runBidiCase(c, kind, IntDom(c.R.Range(4, 6)))
}

func init() {
	core.Register(&core.Prop{
		ID:    "C10",
		Title: "Bidirectional maps are always one-to-one in both directions",
		Cases: func(tier string) int { return tierN(tier, 40000, 2400000) },
		Run:   runC10,
		Rule: "random Put/Remove/Get/Clear histories on HashBidiMap and TreeBidiMap (natural, reversed, coarsened key and value comparators) over 4-6 keys x 4-6 values, so that every collision kind occurs constantly. " +
			"After every call Get is asked for every key and GetKey for every value of the alphabets (plus absent probes) and compared with a pair of inverse model maps; Get(k)=(v,true) <=> GetKey(v)=(k,true) is checked on the implementation's own answers; " +
			"Size = len(Keys) = len(Values) = pairs, no duplicate or stale value. About one call in fifty loads a foreign JSON document whose members repeat live values under other keys and keys with other values; which pair survives is not judged, the one-to-one conditions are, and the history continues from the re-read model. Every case is non-trivial (>= 30 calls); distinct = distinct hash of the call list.",
		Floors: func(tier string, m map[string]int64) []string {
			f := &floorCheck{m: m}
			for _, k := range []string{"exact-repeat", "both", "same-key-new-value", "new-key-same-value"} {
				f.atLeast("bidi:collision-"+k, 5000)
			}
			f.atLeast("obs:bidi-probes", 1000000)
			f.atLeast("call:HashBidiMap.Remove", 10000)
			f.atLeast("call:TreeBidiMap.Remove", 10000)
			f.atLeast("keytype:float", 200)
			f.atLeast("obs:huge-hash-cases", 3)
			f.atLeast("ctor:builtin-comparator", 500)
			f.atLeast("obs:bidi-foreign-load", 2000)
			return f.missing
		},
		Files: []string{"maps/hashbidimap/hashbidimap.go", "maps/treebidimap/treebidimap.go"},
		Assumptions: []string{
			"for TreeBidiMap keys/values that compare equal are one key/value (class model on both sides)",
			"a clean run says the property held on the executed histories only",
		},
	})
}
