#!/bin/bash
# selftest/seeded_all.sh [tier] — re-confirm every filed seeded change against the current checks; writes selftest/seeded_results.jsonl
cd "$(dirname "$0")/.."
TIER="${1:-quick}"
ls -d seeded/C*/ | xargs -P 4 -I{} bash -c 'd={}; p=$(basename $d | cut -d- -f1); x=$(python3 -c "import json,sys; print(\" \".join(json.load(open(sys.argv[1]+\"meta.json\")).get(\"extra_checks\",[])))" $d); ./selftest/seeded.sh $d x $p '"$TIER"' $x 2>/dev/null | sed "s#\"change\":\"[^\"]*\"#\"change\":\"$(basename $d)\"#"' | tee selftest/seeded_results_$TIER.jsonl
