package props

import (
	"godsverif/core"
	"sort"

	"github.com/emirpasic/gods/v2/sets"
	"github.com/emirpasic/gods/v2/sets/hashset"
	"github.com/emirpasic/gods/v2/sets/linkedhashset"
	"github.com/emirpasic/gods/v2/sets/treeset"
)

// SetMon shadows a set with a model keyed by equivalence class (identity for
// the hash sets, comparator class for a TreeSet with a coarsened comparator).
type SetMon[T comparable] struct {
	c    *core.Ctx
	Name string
	S    sets.Set[T]
	D    *Dom[T]
	Cmp  func(a, b T) int // nil: members are identified by ==
	// Model: live members in insertion order (since last absent). For class
	// models the representative is not fixed by the statement; Seen lists every
	// value added to the class since it became live.
	Model []T
	Seen  [][]T
	Kind  string // "hash", "tree", "linked"
}

func newHashSetMon[T comparable](c *core.Ctx, d *Dom[T], init ...T) *SetMon[T] {
	c.Begin("HashSet", "New", init)
	m := &SetMon[T]{c: c, Name: "HashSet", S: hashset.New[T](init...), D: d, Kind: "hash"}
	m.modelAdd(init)
	return m
}
func newLinkedSetMon[T comparable](c *core.Ctx, d *Dom[T], init ...T) *SetMon[T] {
	c.Begin("LinkedHashSet", "New", init)
	m := &SetMon[T]{c: c, Name: "LinkedHashSet", S: linkedhashset.New[T](init...), D: d, Kind: "linked"}
	m.modelAdd(init)
	return m
}
func newTreeSetMon[T comparable](c *core.Ctx, d *Dom[T], cmp NamedCmp[T], init ...T) *SetMon[T] {
	m := &SetMon[T]{c: c, Name: "TreeSet", D: d, Cmp: cmp.F, Kind: "tree"}
	if cmp.Name == "natural" && d.Builtin != nil && (c.Index/3)%2 == 0 {
		// the constructor without a comparator argument (ordered element types)
		c.Begin("TreeSet", "New", init)
		m.S = d.Builtin("TreeSet.New", 0).(func(...T) *treeset.Set[T])(init...)
		c.Count("ctor:builtin-comparator", 1)
	} else {
		c.Begin("TreeSet", "NewWith", cmp.Name, init)
		m.S = treeset.NewWith[T](cmp.F, init...)
	}
	m.modelAdd(init)
	return m
}

// shapeBatch gives a variadic argument list one of the shapes callers really
// pass: as drawn, sorted ascending (with its repeats next to each other),
// sorted descending, or one value repeated. Bulk-load shortcuts key on these.
func shapeBatch[T comparable](r *core.R, vs []T, cmp func(a, b T) int) {
	if len(vs) < 3 {
		return
	}
	switch r.Intn(9) {
	case 0, 1:
		sort.SliceStable(vs, func(i, j int) bool { return cmp(vs[i], vs[j]) < 0 })
	case 2:
		sort.SliceStable(vs, func(i, j int) bool { return cmp(vs[i], vs[j]) > 0 })
	case 3:
		for i := range vs {
			vs[i] = vs[0]
		}
	}
}

func (m *SetMon[T]) order() func(a, b T) int {
	if m.Cmp != nil {
		return m.Cmp
	}
	return m.D.Cmps[0].F
}

func (m *SetMon[T]) same(a, b T) bool {
	if m.Cmp != nil {
		return m.Cmp(a, b) == 0
	}
	return a == b
}

func (m *SetMon[T]) find(v T) int {
	for i, x := range m.Model {
		if m.same(x, v) {
			return i
		}
	}
	return -1
}

func (m *SetMon[T]) modelAdd(vs []T) {
	for _, v := range vs {
		if i := m.find(v); i >= 0 {
			m.Seen[i] = append(m.Seen[i], v)
		} else {
			m.Model = append(m.Model, v)
			m.Seen = append(m.Seen, []T{v})
		}
	}
}

func (m *SetMon[T]) modelRemove(vs []T) {
	for _, v := range vs {
		if i := m.find(v); i >= 0 {
			m.Model = append(m.Model[:i:i], m.Model[i+1:]...)
			m.Seen = append(m.Seen[:i:i], m.Seen[i+1:]...)
		}
	}
}

func (m *SetMon[T]) n() int { return len(m.Model) }

func (m *SetMon[T]) Add(vs ...T) {
	m.c.Begin(m.Name, "Add", vs)
	m.S.Add(vs...)
	m.modelAdd(vs)
	m.Check()
}

func (m *SetMon[T]) Remove(vs ...T) {
	m.c.Begin(m.Name, "Remove", vs)
	m.S.Remove(vs...)
	m.modelRemove(vs)
	m.Check()
}

func (m *SetMon[T]) Clear() {
	m.c.Begin(m.Name, "Clear")
	m.S.Clear()
	m.Model, m.Seen = nil, nil
	m.Check()
}

func (m *SetMon[T]) ContainsList(vs []T) {
	want := true
	for _, v := range vs {
		if m.find(v) < 0 {
			want = false
		}
	}
	m.c.Begin(m.Name, "Contains", vs)
	if got := m.S.Contains(vs...); got != want {
		m.c.Fail("contains", countClass(len(vs)), "%s.Contains(%v) = %v, want %v; members %s", m.Name, vs, got, want, short(m.Model))
	}
	m.c.Count("obs:Contains-list", 1)
}

// Check compares Contains over the whole alphabet, Size, Empty and Values
// (each member exactly once; order is the business of C02/C09).
func (m *SetMon[T]) Check() {
	c := m.c
	if !c.Observe() {
		return
	}
	if sz := m.S.Size(); sz != m.n() {
		c.Fail("size", "", "%s.Size() = %d, model has %d distinct members %s", m.Name, sz, m.n(), short(m.Model))
	}
	if e := m.S.Empty(); e != (m.n() == 0) {
		c.Fail("empty", "", "%s.Empty() = %v with %d members", m.Name, e, m.n())
	}
	alpha := m.D.Alpha
	if len(alpha) > 200 { // big alphabets: sample
		alpha = nil
		for k := 0; k < 40; k++ {
			alpha = append(alpha, m.D.Val(c.R))
		}
	}
	for k, off := 0, c.R.Intn(len(alpha)); k < len(alpha); k++ { // no fixed order of observation
		v := alpha[(k+off)%len(alpha)]
		want := m.find(v) >= 0
		if got := m.S.Contains(v); got != want {
			c.Fail("contains", "single", "%s.Contains(%v) = %v, want %v; members %s", m.Name, v, got, want, short(m.Model))
		}
	}
	for _, v := range m.D.Probe[:2] {
		want := m.find(v) >= 0
		if got := m.S.Contains(v); got != want {
			c.Fail("contains", "probe", "%s.Contains(%v) = %v, want %v; members %s", m.Name, v, got, want, short(m.Model))
		}
	}
	c.Count("obs:Contains", len(alpha)+2)
	if m.n() > 500 {
		c.Count("obs:on-set-larger-than-500", 1)
	}
	if m.n() > 400 && c.R.Intn(8) != 0 {
		return // the exactly-once check is quadratic in the model's linear find
	}
	vs := m.S.Values()
	m.checkValues(vs)
	ruin(vs)
	c.Count("obs:Values", 1)
	c.State(core.Mix(core.HashString(m.Kind), hashVals(m.Model)))
}

func (m *SetMon[T]) checkValues(vs []T) {
	c := m.c
	if len(vs) != m.n() {
		c.Fail("values", "length", "%s.Values() = %s has %d entries, model has %d members %s", m.Name, short(vs), len(vs), m.n(), short(m.Model))
	}
	used := make([]bool, m.n())
	for _, v := range vs {
		i := m.find(v)
		if i < 0 && v != v {
			// a NaN member of a hash-keyed set: == never finds it again, every NaN
			// added is a member of its own; match it with an unused NaN of the model
			for j, x := range m.Model {
				if x != x && !used[j] {
					i = j
					break
				}
			}
		}
		if i < 0 {
			c.Fail("values", "non-member", "%s.Values() = %s lists %v which is not a member; members %s", m.Name, short(vs), v, short(m.Model))
		}
		if used[i] {
			c.Fail("values", "duplicate", "%s.Values() = %s lists member %v more than once", m.Name, short(vs), v)
		}
		used[i] = true
		ok := false
		for _, s := range m.Seen[i] {
			if identical(s, v) {
				ok = true
			}
		}
		if !ok {
			c.Fail("values", "never-added", "%s.Values() lists %v, which was never added (class of %v)", m.Name, v, m.Model[i])
		}
	}
}

func (m *SetMon[T]) args(mixed bool) []T {
	r := m.c.R
	k := varCountBig(r)
	vs := make([]T, k)
	for i := range vs {
		switch {
		case mixed && r.Chance(1, 5):
			vs[i] = m.D.Probe[r.Intn(len(m.D.Probe))]
		case i > 0 && r.Chance(1, 4):
			vs[i] = vs[r.Intn(i)] // duplicate inside one call
		case m.n() > 0 && r.Chance(1, 3):
			vs[i] = m.Model[r.Intn(m.n())] // a member
		default:
			vs[i] = m.D.Val(r)
		}
	}
	shapeBatch(r, vs, m.order())
	return vs
}

func (m *SetMon[T]) Step() {
	switch m.c.R.Pick(10, 8, 6, 1) {
	case 0:
		m.Add(m.args(false)...)
	case 1:
		m.Remove(m.args(true)...)
	case 2:
		if m.n() > 0 && m.c.R.Intn(3) == 0 {
			// members only, some of them named more than once (the answer is true)
			k := []int{2, 3, 5, 16, 17, 21, 33, 64}[m.c.R.Intn(8)]
			vs := make([]T, k)
			for i := range vs {
				vs[i] = m.Model[m.c.R.Intn(m.n())]
			}
			shapeBatch(m.c.R, vs, m.order())
			m.ContainsList(vs)
			m.c.Count("obs:Contains-members-with-repeats", 1)
		} else {
			m.ContainsList(m.args(true))
		}
	default:
		if m.c.R.Chance(1, 3) && len(m.D.Alpha) < 1000 { // (a Clear every ~75 calls would keep a big set small for ever)
			m.Clear()
		} else {
			m.ContainsList(nil)
		}
	}
}

func newSetMon[T comparable](c *core.Ctx, d *Dom[T], kind int, init ...T) *SetMon[T] {
	switch kind % 3 {
	case 0:
		return newHashSetMon(c, d, init...)
	case 1:
		return newLinkedSetMon(c, d, init...)
	default:
		return newTreeSetMon(c, d, d.Cmps[c.R.Intn(len(d.Cmps))], init...)
	}
}

func runSetHistory[T comparable](c *core.Ctx, d *Dom[T], kind int) {
	var init []T
	switch c.R.Intn(6) {
	case 0, 1:
		init = d.Vals(c.R, c.R.Range(1, 6))
	case 2:
		// a bulk load through the constructor: batch sizes around the usual
		// thresholds, repeats included, in one of the shapes of shapeBatch
		init = d.Vals(c.R, []int{15, 16, 17, 31, 32, 33, 64, 100, 257}[c.R.Intn(9)])
		shapeBatch(c.R, init, d.Cmps[0].F)
		c.Count("obs:bulk-constructor-load", 1)
	}
	m := newSetMon(c, d, kind, init...)
	m.Check()
	if c.R.Intn(6) == 0 && len(d.Alpha) < 1000 {
		// the same through Add into an empty set, ordered by the set's own order
		m.Clear()
		vs := d.Vals(c.R, []int{15, 16, 17, 31, 32, 33, 64, 100, 257}[c.R.Intn(9)])
		if c.R.Intn(4) > 0 {
			sort.SliceStable(vs, func(i, j int) bool { return m.order()(vs[i], vs[j]) < 0 })
		}
		m.Add(vs...)
		c.Count("obs:bulk-add-into-empty", 1)
	}
	steps := c.R.Range(10, 150)
	if len(d.Alpha) >= 1000 {
		steps = 1500
		for len(m.Model) < len(d.Alpha)/2 { // fill quickly, then mix
			m.Add(d.Vals(c.R, 17)...)
		}
	}
	for s := 0; s < steps; s++ {
		m.Step()
	}
	if len(d.Alpha) >= 1000 {
		// drain through a quarter and an eighth of the peak with variadic Removes
		// of present members (policies that fire in the middle of one call)
		c.SetGapMax(12)
		for m.n() > len(d.Alpha)/20 {
			k := []int{2, 3, 17, 17, 40}[c.R.Intn(5)]
			vs := make([]T, 0, k)
			for i := 0; i < k && i < m.n(); i++ {
				vs = append(vs, m.Model[c.R.Intn(m.n())])
			}
			m.Remove(vs...)
		}
		c.ObserveNow()
		m.Check()
		c.Count("obs:big-set-drained-by-variadic-removes", 1)
	}
	// focus bursts with long observation gaps: membership questions, removals
	// and re-additions aimed at a value and its neighbours in alphabet (= key)
	// order - the sequences a "last node found" cache in the tree gets wrong
	if len(d.Alpha) >= 5 {
		c.SetGapMax(24)
		for b := c.R.Range(3, 12); b > 0; b-- {
			f := c.R.Range(2, len(d.Alpha)-3)
			for s := c.R.Range(4, 10); s > 0; s-- {
				v := d.Alpha[f+c.R.Range(-2, 2)]
				switch c.R.Pick(40, 25, 35) {
				case 0:
					m.ContainsList([]T{v})
				case 1:
					m.Remove(v)
				default:
					m.Add(v)
				}
			}
		}
		c.ObserveNow()
		m.Check()
	}
	// remove-then-re-add of every member, one by one
	for k, v := range append([]T(nil), m.Model...) {
		if k >= 64 {
			break
		}
		m.Remove(v)
		m.Add(v, v)
	}
	c.ObserveNow()
	m.Check()
	c.Nontrivial()
}

// runManyClears: tens of thousands of Clear calls on one set (epoch counters
// and generation stamps narrower than the machine word wrap around).
func runManyClears(c *core.Ctx, kind int) {
	d := IntDom(6)
	m := newSetMon(c, d, kind)
	x := d.Alpha[1]
	m.Add(x)
	c.Begin(m.Name, "Clear x 65540, looking at the set around the 2^8 and 2^16 marks")
	y := d.Alpha[2]
	m.Model, m.Seen = nil, nil
	for i := 1; i <= 65540; i++ {
		m.S.Clear()
		switch i {
		case 255, 256, 257, 65535, 65536, 65537:
			m.Check() // x (added i Clears ago) and y are not members, Size is 0
		}
		if i%3 == 0 {
			m.S.Add(y)
		}
	}
	m.S.Clear()
	m.Check()
	m.Add(x) // and x can be added again
	m.Add(y, x)
	m.Remove(x)
	c.Count("obs:66000-clears", 1)
	c.Nontrivial()
}

func runC04(c *core.Ctx) {
	i := c.Index
	if i < 4 {
		runHugeHash(c, 3+i%2) // HashSet, LinkedHashSet beyond 4096 members
		return
	}
	c.SetGaps(i%2 == 1)
	if i%1009 >= 500 && i%1009 < 503 {
		c.SetGaps(false)
		runManyClears(c, i%1009-500)
		return
	}
	switch {
	case i%5 == 4:
		runSetHistory(c, StrDom(c.R.Range(3, 14)), i)
	case i%31 == 0:
		runSetHistory(c, IntDom(c.R.Range(30, 120)), i) // deeper trees for TreeSet's deletion cases
	case i%311 == 7:
		runSetHistory(c, IntDom(c.R.Range(1000, 3000)), i) // sizes that small tests never reach
	case i%13 == 5:
		runSetHistory(c, StructDom(c.R.Range(4, 14)), i)
	case i%13 == 6:
		// float members: on the TreeSet NaN, the infinities and both zeros are
		// members like any other under cmp.Compare (== is not reflexive on NaN);
		// in the hash-keyed sets every NaN added is a member of its own that only
		// Clear removes
		if i%3 == 2 {
			c.Count("elemtype:float-treeset", 1)
		} else {
			c.Count("elemtype:float-hash-sets", 1)
		}
		runSetHistory(c, FKeyDom(c.R.Range(4, 14)), i)
	case i%13 == 7:
		// int members from the whole range of the type (negatives, extremes,
		// pairs further apart than MaxInt)
		c.Count("elemtype:wide-int", 1)
		runSetHistory(c, WideIntDom(c.R, c.R.Range(3, 14)), i)
	default:
		runSetHistory(c, IntDom(c.R.Range(2, 10)), i)
	}
}

var setFiles = []string{"sets/hashset/hashset.go", "sets/treeset/treeset.go", "sets/linkedhashset/linkedhashset.go"}

func init() {
	core.Register(&core.Prop{
		ID:    "C04",
		Title: "Sets hold each member once and answer membership exactly",
		Cases: func(tier string) int { return tierN(tier, 40000, 2400000) },
		Run:   runC04,
		Rule: "random histories of variadic Add/Remove/Contains and Clear on HashSet, LinkedHashSet and TreeSet (natural, reversed and coarsened comparators), argument lists with 0,1,2,3,17 values, duplicates inside one call, " +
			"members and non-members mixed, constructor arguments, and a final remove-then-re-add pass; after every mutating call Contains is asked for the whole alphabet and Values/Size/Empty are compared with a model set. " +
			"Every case is non-trivial (>= 10 calls, each followed by the full comparison); distinct = distinct hash of the call list.",
		Floors: func(tier string, m map[string]int64) []string {
			f := &floorCheck{m: m}
			for _, s := range []string{"HashSet", "LinkedHashSet", "TreeSet"} {
				f.atLeast("call:"+s+".Add", 5000)
				f.atLeast("call:"+s+".Remove", 5000)
				f.atLeast("call:"+s+".Clear", 50)
			}
			f.atLeast("obs:Values", 100000)
			f.atLeast("obs:huge-hash-cases", 4)
			f.atLeast("obs:Contains-members-with-repeats", 10000)
			f.atLeast("elemtype:wide-int", 500)
			f.atLeast("ctor:builtin-comparator", 500)
			f.atLeast("obs:bulk-constructor-load", 1000)
			f.atLeast("obs:bulk-add-into-empty", 1000)
			f.atLeast("elemtype:float-treeset", 200)
			f.atLeast("elemtype:float-hash-sets", 400)
			return f.missing
		},
		Files: setFiles,
		Assumptions: []string{
			"element types int, string, struct and (TreeSet) float64 incl. NaN; TreeSet built by New (built-in order) or NewWith; TreeSet comparators are strict weak orders; which representative of a comparator class Values() reports is not constrained",
			"a clean run says the property held on the executed histories only",
		},
	})
}
