package props

import (
	"math"

	"godsverif/core"

	"github.com/emirpasic/gods/v2/trees/btree"
)

var btreeOrders = []int{3, 4, 5, 6, 7, 8, 9, 10, 11, 12, 16, 32, 64}

var kvKinds = []string{"RedBlackTree", "AVLTree", "BTree", "TreeMap", "HashMap", "LinkedHashMap", "HashBidiMap", "TreeBidiMap"}

// newKVByKind constructs container kind k with a configuration drawn from r.
func newKVByKind[K comparable](c *core.Ctx, kind string, d *Dom[K]) *KV[K, int] {
	r := c.R
	cm := d.Cmps[r.Intn(len(d.Cmps))]
	var a *KV[K, int]
	// half of the natural-order cases of an ordered key type use the
	// constructor without a comparator argument
	var mk func() any
	builtin := func(order int) func() any {
		if cm.Name == "natural" && d.Builtin != nil && (c.Index/7)%2 == 0 {
			c.Count("ctor:builtin-comparator", 1)
			return func() any { return d.Builtin(kind, order) }
		}
		return nil
	}
	switch kind {
	case "RedBlackTree":
		a = newRBTOn[K, int](cm, builtin(0))
	case "AVLTree":
		a = newAVLOn[K, int](cm, builtin(0))
	case "BTree":
		order := btreeOrders[r.Intn(len(btreeOrders))]
		if r.Bool() {
			order = btreeOrders[r.Intn(4)] // favour small orders: deep trees, inner-level borrow/merge
		}
		if r.Intn(40) == 0 {
			// extreme but documented orders (any order >= 3 is allowed)
			order = []int{1000, 10000, 1 << 31, 1<<31 + 1, math.MaxInt - 1, math.MaxInt}[r.Intn(6)]
			c.Count("btree-order:extreme", 1)
		}
		a = newBTreeOn[K, int](order, cm, builtin(order))
		c.Count("btree-order:"+itoa(order), 1)
	case "TreeMap":
		a = newTreeMapOn[K, int](cm, builtin(0))
	case "HashMap":
		a = newHashMap[K, int]()
	case "LinkedHashMap":
		a = newLinkedHashMap[K, int]()
	case "HashBidiMap":
		a = newHashBidi[K, int]()
	case "TreeBidiMap":
		if mk = builtin(0); mk != nil {
			a = newTreeBidiOn[K, int](cm, intCmps[0], mk)
		} else {
			a = newTreeBidi[K, int](cm, intCmps[r.Intn(len(intCmps))])
		}
	}
	if a.Order > 0 {
		c.Begin(a.Name, "NewWith", a.Order, a.CmpName)
	} else {
		c.Begin(a.Name, "New", a.CmpName)
	}
	return a
}

func sortedKind(kind string) bool {
	switch kind {
	case "RedBlackTree", "AVLTree", "BTree", "TreeMap", "TreeBidiMap", "TreeSet":
		return true
	}
	return false
}

func largeFor(kind, tier string) int {
	switch kind {
	case "HashMap", "LinkedHashMap", "HashBidiMap":
		return 400 // identity model removal is linear; hash containers have no shape to grow
	}
	if tier == "thorough" {
		return 5000
	}
	return 1500
}

func runKVCase[K comparable](c *core.Ctx, kind string, d *Dom[K], keyOf func(int) K, setup func(m *KVMon[K, int])) {
	a := newKVByKind(c, kind, d)
	m := NewKVMon(c, a, d)
	setup(m)
	c.SetGaps((c.Index/16)%2 == 1) // independent of the kind/key-type selection arithmetic
	drv := &kvDriver[K]{c: c, m: m, keyOf: keyOf}
	if a.GetKey != nil {
		nv := c.R.Range(4, 8)
		for i := 0; i < nv; i++ {
			drv.vals = append(drv.vals, i*6)
		}
		m.VD = append(append([]int(nil), drv.vals...), 3, -6)
	}
	drv.runFamily(largeFor(kind, c.Tier))
	c.Nontrivial()
}

func runC01(c *core.Ctx) {
	if plans := exhaustivePlans(c.Tier); c.Index < len(plans) {
		p := plans[c.Index]
		exhaustiveTree(c, p.label, p.mk, p.k, 400000, func(m *KVMon[int, int]) { m.Map = true }, nil)
		return
	}
	if h := c.Index - len(exhaustivePlans(c.Tier)); h >= 0 && h < hugeCases {
		runHugeTree(c, h, hugeN(c.Tier), func(m *KVMon[int, int]) { m.Map = true })
		return
	}
	if j := c.Index - len(exhaustivePlans(c.Tier)) - hugeCases; j >= 0 && j < wideBTreeCases {
		runWideBTree(c, j, func(m *KVMon[int, int]) { m.Map = true })
		return
	}
	if j := c.Index - len(exhaustivePlans(c.Tier)) - hugeCases - wideBTreeCases; j >= 0 && j < 6 {
		runHugeHash(c, j%3) // HashMap, LinkedHashMap, HashBidiMap beyond 4096 entries
		return
	}
	kind := kvKinds[c.Index%len(kvKinds)]
	if c.Index%len(kvKinds) >= 4 && (c.Index/len(kvKinds))%2 == 1 {
		kind = kvKinds[(c.Index/len(kvKinds)/2)%3] // weight towards the three trees
	}
	if c.Index%211 == 0 {
		expectPanic(c, "BTree", "New", func() { btree.New[int, int](c.R.Range(-1, 2)) })
	}
	setup := func(m *KVMon[int, int]) { m.Map = true; m.Bidi = m.Inv != nil }
	switch kt := (c.Index / 3) % 10; {
	case kt == 4:
		runKVCase(c, kind, StrDom(c.R.Range(4, 12)), strKey, func(m *KVMon[string, int]) { m.Map = true; m.Bidi = m.Inv != nil })
		return
	case kt == 9 && (c.Index/30)%2 == 0 && sortedKind(kind):
		// float keys incl. NaN, the infinities and both zeros: only the
		// comparator may decide which key is which (== is not reflexive)
		c.Count("keytype:float", 1)
		runKVCase(c, kind, FKeyDom(c.R.Range(4, 12)), floatKey, func(m *KVMon[float64, int]) { m.Map = true; m.Bidi = m.Inv != nil })
		return
	case kt == 7 && (c.Index/30)%2 == 0:
		// pointer keys (never nil) under comparators that need not accept nil
		c.Count("keytype:pointer", 1)
		pd, pkey := PKDom(c.R.Range(4, 12))
		runKVCase(c, kind, pd, pkey, func(m *KVMon[*PK, int]) { m.Map = true; m.Bidi = m.Inv != nil })
		return
	case kt == 7 && (c.Index/30)%2 == 1:
		// int keys from the whole range of the type: negatives, both extremes,
		// pairs further apart than MaxInt (comparison by subtraction wraps)
		c.Count("keytype:wide-int", 1)
		runKVCase(c, kind, WideIntDom(c.R, c.R.Range(4, 14)), wideIntKey, setup)
		return
	case kt == 9:
		c.Count("keytype:struct", 1)
		runKVCase(c, kind, StructDom(c.R.Range(4, 14)), structKey, func(m *KVMon[SK, int]) { m.Map = true; m.Bidi = m.Inv != nil })
		return
	}
	runKVCase(c, kind, IntDom(c.R.Range(4, 12)), intKey, setup)
}

var kvFiles = []string{"trees/redblacktree/redblacktree.go", "trees/avltree/avltree.go", "trees/btree/btree.go", "maps/hashmap/hashmap.go", "maps/treemap/treemap.go", "maps/linkedhashmap/linkedhashmap.go", "maps/hashbidimap/hashbidimap.go", "maps/treebidimap/treebidimap.go"}

func init() {
	core.Register(&core.Prop{
		ID:    "C01",
		Title: "Key-value containers behave as a map under every history",
		Cases: func(tier string) int { return tierN(tier, 30000, 600000) },
		Run:   runC01,
		Rule: "the first cases explore small universes exhaustively: for RedBlackTree, AVLTree (k <= 8 keys quick / 10 thorough) and BTree of order 3..6 (k <= 9 / 11, orders up to 8) every state reachable from the empty tree by Put/Remove is visited breadth-first and every call is made from it under the monitor (see exhaustive_small_scope). The other cases: " +
			"one container per case (RedBlackTree, AVLTree, BTree of order 3..12,16,32,64, TreeMap, HashMap, LinkedHashMap, HashBidiMap, TreeBidiMap; natural, reversed, coarsened or un-normalised comparator (results up to math.MinInt/MaxInt); int, string, struct or - ordered containers - float64 keys incl. NaN, +-Inf, +-0) driven by one workload family: " +
			"dense random Put/Remove/Get/Clear over a 4-12 key alphabet, build-then-drain in six order families, churn at a fixed size, sliding window, one-sided drain; ~70% of sizes <= 24, ~25% <= 300, ~5% up to 1500 (quick) / 5000 (thorough). " +
			"Values are unique per Put. After every call: Get of the touched key and 5 probe keys, Size, Empty; Keys/Values (exactly-once, alignment) on every call while n <= 64, every 16th otherwise; remove-absent compares full snapshots. " +
			"Every case is non-trivial (>= 30 calls incl. removals of present keys); distinct = distinct hash of the call list.",
		Floors: func(tier string, m map[string]int64) []string {
			f := &floorCheck{m: m}
			exhaustiveFloors(tier, f)
			f.atLeast("obs:wide-btree-cases", wideBTreeCases)
			f.atLeast("obs:huge-hash-cases", 6)
			f.atLeast("remove:RedBlackTree-two-children", 1000)
			f.atLeast("remove:AVLTree-two-children", 1000)
			f.atLeast("remove:BTree-inner-node", 1000)
			f.atLeast("obs:remove-absent", 1000)
			f.atLeast("obs:Keys+Values", 50000)
			f.atLeast("keytype:float", 500)
			f.atLeast("keytype:struct", 500)
			for _, k := range kvKinds {
				f.atLeast("call:"+k+".Put", 2000)
				f.atLeast("call:"+k+".Remove", 1000)
			}
			for _, o := range btreeOrders {
				f.atLeast("btree-order:"+itoa(o), 5)
			}
			return f.missing
		},
		Files: kvFiles,
		Assumptions: []string{
			"comparators are strict weak orders (natural, reversed, coarsened, un-normalised); key types int, string, struct and (ordered containers) float64 incl. NaN; values int",
			"which representative of a comparator class Keys() reports is not constrained beyond having been Put",
			"a clean run says the property held on the executed histories only",
		},
	})
}
