package props

import (
	"cmp"
	"fmt"
	"math"
	"slices"

	"godsverif/core"

	"github.com/emirpasic/gods/v2/containers"
	"github.com/emirpasic/gods/v2/lists/arraylist"
	"github.com/emirpasic/gods/v2/lists/doublylinkedlist"
	"github.com/emirpasic/gods/v2/lists/singlylinkedlist"
	"github.com/emirpasic/gods/v2/queues/arrayqueue"
	"github.com/emirpasic/gods/v2/queues/circularbuffer"
	"github.com/emirpasic/gods/v2/queues/linkedlistqueue"
	"github.com/emirpasic/gods/v2/stacks/arraystack"
	"github.com/emirpasic/gods/v2/stacks/linkedliststack"
)

// observeAll: every observer including iteration order, used to decide
// "the container is unchanged".
func observeAll(d *Dyn) (Obs, []any) {
	o := d.Observe(true)
	var w []any
	if d.Walk != nil {
		w = d.Walk()
	}
	return o, w
}

func sameWalk(a, b []any) bool {
	if len(a) != len(b) {
		return false
	}
	for i := range a {
		if a[i] != b[i] {
			return false
		}
	}
	return true
}

// runC16Floats: GetSortedValues on float containers, including NaN (which
// cmp.Compare orders before every number): the result must be in that sorted
// order, hold the same values, and the container must keep its order.
func runC16Floats(c *core.Ctx) {
	r := c.R
	nan := math.NaN()
	pool := []float64{3, nan, 1, 2, math.Inf(1), -0.5, math.Inf(-1), 2, nan, 7.25, 1e300, -1e-300}
	n := r.Range(2, 12)
	vals := make([]float64, n)
	for i := range vals {
		vals[i] = pool[r.Intn(len(pool))]
	}
	same := func(a, b float64) bool { return a == b || (a != a && b != b) }
	check := func(name string, cont containers.Container[float64]) {
		before := cont.Values()
		c.Begin(name, "GetSortedValues", fmt.Sprint(vals))
		got := containers.GetSortedValues(cont)
		if len(got) != len(before) {
			c.Fail("sorted-values", "not-a-permutation", "containers.GetSortedValues(%s of %v) has %d values", name, before, len(got))
		}
		for i := 1; i < len(got); i++ {
			if cmp.Compare(got[i-1], got[i]) > 0 {
				c.Fail("sorted-values", "not-sorted", "containers.GetSortedValues(%s of %v) = %v is not in sorted order (NaN sorts first)", name, before, got)
			}
		}
		want := slices.Clone(before)
		slices.Sort(want)
		for i := range want {
			if !same(want[i], got[i]) {
				c.Fail("sorted-values", "not-a-permutation", "containers.GetSortedValues(%s of %v) = %v, sorted contents are %v", name, before, got, want)
			}
		}
		after := cont.Values()
		for i := range before {
			if len(after) != len(before) || !same(after[i], before[i]) {
				c.Fail("sorted-values", "container-altered", "containers.GetSortedValues altered the %s: %v -> %v", name, before, after)
			}
		}
		c.Count("obs:sorted-float-values-with-NaN", 1)
	}
	al := arraylist.New(vals...)
	check("ArrayList", al)
	dl := doublylinkedlist.New(vals...)
	check("DoublyLinkedList", dl)
	st := arraystack.New[float64]()
	q := arrayqueue.New[float64]()
	rb := circularbuffer.New[float64](n + r.Intn(3))
	for _, v := range vals {
		st.Push(v)
		q.Enqueue(v)
		rb.Enqueue(v)
	}
	check("ArrayStack", st)
	check("ArrayQueue", q)
	check("CircularBuffer", rb)
	c.Nontrivial()
}

// runC16Shaped: GetSortedValues(Func) on contents with structure - runs,
// nearly sorted, nearly reversed, constant, sawtooth, with one element out of
// place at the front, the back or in the middle - at sizes around the points
// where sorting code switches strategy. "Already a descending run, just
// reverse it" and similar shortcuts are decided by exactly such shapes.
func runC16Shaped(c *core.Ctx) {
	r := c.R
	n := []int{12, 12, 12, 13, 31, 32, 33, 40, 64, 65, 100, 257, 1000, 2049, 4096, 4097, 4098, 4099, 5001, 10002, 16387}[r.Intn(21)]
	shape := r.Intn(5)
	vals := make([]int, n)
	for i := range vals {
		switch shape {
		case 0:
			vals[i] = i * 3
		case 1:
			vals[i] = (n - i) * 3
		case 2:
			vals[i] = 7
		case 3:
			vals[i] = (i % 9) * 5
		default:
			vals[i] = r.Intn(4 * n)
		}
	}
	pert := r.Intn(8)
	switch pert {
	case 6: // the extremes of the element type (differences that overflow)
		vals[r.Intn(n)] = math.MinInt
		vals[r.Intn(n)] = 5
	case 7:
		vals[r.Intn(n)] = math.MaxInt
		vals[r.Intn(n)] = math.MinInt
	case 1: // the first element belongs elsewhere
		vals[0] = vals[n/2] + 1
	case 2:
		vals[0] = vals[1] - 1
	case 3: // the last element belongs elsewhere
		vals[n-1] = vals[n/3] - 1
	case 4:
		i := r.Range(1, n-2)
		vals[i], vals[i+1] = vals[i+1], vals[i]
	case 5:
		vals[r.Intn(n)] = r.Intn(4*n) - n
	}
	c.Note("shape %d, perturbation %d, %d values", shape, pert, n)
	c.Count("obs:shaped-contents-cases", 1)
	conts := map[string]containers.Container[int]{}
	al := arraylist.New(vals...)
	conts["ArrayList"] = al
	conts["DoublyLinkedList"] = doublylinkedlist.New(vals...)
	conts["SinglyLinkedList"] = singlylinkedlist.New(vals...)
	st, ls := arraystack.New[int](), linkedliststack.New[int]()
	q, lq := arrayqueue.New[int](), linkedlistqueue.New[int]()
	rb := circularbuffer.New[int](n + r.Intn(3))
	for _, v := range vals {
		st.Push(v)
		ls.Push(v)
		q.Enqueue(v)
		lq.Enqueue(v)
		rb.Enqueue(v)
	}
	conts["ArrayStack"], conts["LinkedListStack"], conts["ArrayQueue"], conts["LinkedListQueue"], conts["CircularBuffer"] = st, ls, q, lq, rb
	for _, name := range core.SortedKeys(conts) {
		cont := conts[name]
		before := slices.Clone(cont.Values())
		for ci := -1; ci < 2; ci++ {
			var got []int
			// (both orders as closures of one factory: one code pointer)
			cf := viaFactory(intCmps[0].F, false)
			if ci == 1 {
				cf = viaFactory(intCmps[0].F, true)
			}
			if ci < 0 {
				c.Begin(name, "GetSortedValues", n)
				got = containers.GetSortedValues(cont)
			} else {
				c.Begin(name, "GetSortedValuesFunc", intCmps[ci].Name, n)
				got = containers.GetSortedValuesFunc(cont, cf)
			}
			want := slices.Clone(before)
			slices.SortFunc(want, cf)
			if !slices.Equal(got, want) {
				c.Fail("sorted-values", "not-sorted", "sorted values of a %s holding %s = %s, want %s", name, short(before), short(got), short(want))
			}
			if after := cont.Values(); !slices.Equal(after, before) {
				c.Fail("sorted-values", "container-altered", "sorting the values of a %s altered it: %s -> %s", name, short(before), short(after))
			}
			c.Count("obs:sorted-shaped", 1)
		}
	}
	c.Nontrivial()
}

func runC16(c *core.Ctx) {
	r := c.R
	if c.Index%211 == 100 {
		runC16Floats(c)
		return
	}
	if c.Index%23 == 7 {
		runC16Shaped(c)
		return
	}
	kind := dynKinds[c.Index%len(dynKinds)]
	d := newDynRandom(c, kind, false)
	d.build(c, r.Range(0, 30))
	switch r.Intn(10) {
	case 0:
		// emptied by Clear (storage with spare capacity may be kept) ...
		c.Begin(kind, "Clear")
		d.C.Clear()
		c.Count("state:cleared", 1)
	case 1:
		// ... and a second generation after it
		c.Begin(kind, "Clear")
		d.C.Clear()
		d.build(c, r.Range(1, 6))
		c.Count("state:cleared-then-refilled", 1)
	}

	// (a) writing to a returned slice never changes the container
	for _, sc := range d.Scribblers {
		before, bw := observeAll(d)
		c.Begin(kind, "scribble-on-returned-slice")
		which := sc()
		after, aw := observeAll(d)
		if diff := before.Diff(after); diff != "" || !sameWalk(bw, aw) {
			c.Fail("aliasing", "returned-slice-writes-reach-container", "%s: overwriting the slice returned by %s (and appending within its capacity) changed the container: %s", kind, which, diff)
		}
		c.Count("obs:scribble-returned", 1)
	}
	// (d) GetSortedValues / GetSortedValuesFunc
	for _, ci := range []int{-1, r.Intn(4), r.Intn(4)} {
		before, bw := observeAll(d)
		name, got, sortedOK, perm := d.SortedBy(ci)
		c.Begin(kind, name)
		if !perm {
			c.Fail("sorted-values", "not-a-permutation", "containers.%s(%s) = %s is not a permutation of Values() %s", name, kind, short(got), short(before.Values))
		}
		if !sortedOK {
			c.Fail("sorted-values", "not-sorted", "containers.%s(%s) = %s is not sorted", name, kind, short(got))
		}
		after, aw := observeAll(d)
		if diff := before.Diff(after); diff != "" || !sameWalk(bw, aw) {
			c.Fail("sorted-values", "container-altered", "containers.%s altered the %s it was given: %s", name, kind, diff)
		}
		if len(got) >= 2 {
			c.Count("obs:sorted-values>=2", 1)
		}
	}
	// (b) later changes to the container never change a slice returned earlier
	var checks []func() string
	for _, sn := range d.Snapshots {
		checks = append(checks, sn())
	}
	steps := r.Range(3, 25)
	for s := 0; s < steps; s++ {
		switch r.Intn(12) {
		case 0:
			c.Begin(kind, "Clear")
			d.C.Clear()
		case 1:
			other := d.Fresh()
			other.build(c, r.Range(0, 10))
			data, err := other.JSON.ToJSON()
			if err == nil {
				c.Begin(kind, "FromJSON", string(data))
				d.JSON.FromJSON(data)
			}
		default:
			d.Mutate(c)
		}
		for _, ck := range checks {
			if msg := ck(); msg != "" {
				c.Fail("aliasing", "container-changes-reach-returned-slice", "%s: a later change to the container changed a slice returned earlier: %s", kind, msg)
			}
		}
		if r.Intn(4) == 0 {
			for _, sn := range d.Snapshots {
				checks = append(checks, sn())
			}
		}
		c.Count("obs:snapshot-stable", 1)
	}
	// (c) slices passed to constructors and variadic inserts are copied
	for _, sa := range d.SliceArgs {
		t, scrib := sa(c)
		before, bw := observeAll(t)
		scrib()
		after, aw := observeAll(t)
		if diff := before.Diff(after); diff != "" || !sameWalk(bw, aw) {
			c.Fail("aliasing", "argument-slice-not-copied", "%s: the caller's later writes to the slice it passed reached the container: %s", kind, diff)
		}
		// and growing the container must not write into the caller's spare capacity in a way that corrupts itself
		t.Grow(c)
		t.Grow(c)
		o2 := t.Observe(false)
		scrib()
		if diff := o2.Diff(t.Observe(false)); diff != "" {
			c.Fail("aliasing", "argument-slice-not-copied", "%s: after two more inserts the container still shares the caller's slice: %s", kind, diff)
		}
		c.Count("obs:argument-slice", 1)
	}
	c.State(core.Mix(core.HashString(kind), d.Observe(false).Hash()))
	c.Nontrivial()
}

func init() {
	core.Register(&core.Prop{
		ID:    "C16",
		Title: "Returned slices are snapshots and argument slices are copied",
		Cases: func(tier string) int { return tierN(tier, 42000, 3360000) },
		Run:   runC16,
		Rule: "one container per case, cycling through all 21 kinds and element types, in a state reached by a random history; (a) every slice returned by Values()/Keys() is overwritten with a sentinel and appended to within its capacity, " +
			"then all observers incl. iteration order and ToJSON must be unchanged; (b) snapshots and their deep copies are kept across 3-25 further mutations (incl. Sort, Clear, FromJSON) and must stay equal; " +
			"(c) caller-owned slices with spare capacity are passed to every variadic constructor and to Add/Append/Prepend/Insert/Push, then overwritten, before and after two further inserts; " +
			"(d) GetSortedValues and GetSortedValuesFunc (three comparators) must return a sorted permutation of Values() and leave every observer unchanged. Every case is non-trivial (all four probes run); distinct = distinct hash of the call list and state.",
		Floors: func(tier string, m map[string]int64) []string {
			f := &floorCheck{m: m}
			f.atLeast("obs:scribble-returned", 10000)
			f.atLeast("obs:snapshot-stable", 50000)
			f.atLeast("obs:argument-slice", 5000)
			f.atLeast("obs:sorted-values>=2", 10000)
			f.atLeast("obs:shaped-contents-cases", 1000)
			f.atLeast("state:cleared", 1000)
			f.atLeast("state:cleared-then-refilled", 1000)
			return f.missing
		},
		Files: append(append([]string{}, allContainerFiles...), "containers/containers.go"),
		Assumptions: []string{
			"aliasing is judged through the public observers; element types int and string",
			"a clean run says the property held on the executed states only",
		},
	})
}
