package props

import (
	"godsverif/core"

	"github.com/emirpasic/gods/v2/maps/hashbidimap"
	"github.com/emirpasic/gods/v2/maps/hashmap"
	"github.com/emirpasic/gods/v2/maps/linkedhashmap"
	"github.com/emirpasic/gods/v2/sets/hashset"
	"github.com/emirpasic/gods/v2/sets/linkedhashset"
)

// Huge hash containers: tens of thousands of entries in the five hash-based
// containers (the tree-based and linear ones have their own huge cases).
// "Replace the Go map instead of clearing it once it holds more than 4096
// entries", "rehash in chunks", "shrink after a mass removal" only exist at
// this scale. Content is known by construction: keys 6*i, values 7*key+1.
// Checked: Size/Empty, Get and Contains on samples of present and absent keys,
// len(Keys())/len(Values()), the inverse direction of the bidirectional map,
// the insertion order of the linked ones; then half is removed, the container
// is cleared, checked to be empty like a fresh one, and refilled.

const hugeHashKinds = 5

var hugeHashNames = []string{"HashMap", "LinkedHashMap", "HashBidiMap", "HashSet", "LinkedHashSet"}

func hugeHashN(tier string, c *core.Ctx) int {
	if tier == "thorough" {
		return c.R.Range(300000, 600000)
	}
	return []int{4097, 5000, 9000, 40000, 70000}[c.R.Intn(5)]
}

type hugeHashAPI struct {
	name    string
	put     func(k int)
	remove  func(k int)
	has     func(k int) bool // Get(k) = 7k+1 / Contains(k)
	inverse func(k int) bool // bidi: GetKey(7k+1) = k
	size    func() int
	empty   func() bool
	clear   func()
	keys    func() []int
	nValues func() int
	ordered bool // keys() is in insertion order
}

func runHugeHash(c *core.Ctx, h int) {
	n := hugeHashN(c.Tier, c)
	if k := h % hugeHashKinds; (k == 1 || k == 4) && n > 60000 {
		n = 60000 // (removal from the linked containers is linear in the position)
	}
	val := func(k int) int { return 7*k + 1 }
	var a hugeHashAPI
	switch h % hugeHashKinds {
	case 0:
		m := hashmap.New[int, int]()
		a = hugeHashAPI{put: func(k int) { m.Put(k, val(k)) }, remove: m.Remove, has: func(k int) bool { v, ok := m.Get(k); return ok && v == val(k) },
			size: m.Size, empty: m.Empty, clear: m.Clear, keys: m.Keys, nValues: func() int { return len(m.Values()) }}
	case 1:
		m := linkedhashmap.New[int, int]()
		a = hugeHashAPI{put: func(k int) { m.Put(k, val(k)) }, remove: m.Remove, has: func(k int) bool { v, ok := m.Get(k); return ok && v == val(k) },
			size: m.Size, empty: m.Empty, clear: m.Clear, keys: m.Keys, nValues: func() int { return len(m.Values()) }, ordered: true}
	case 2:
		m := hashbidimap.New[int, int]()
		a = hugeHashAPI{put: func(k int) { m.Put(k, val(k)) }, remove: m.Remove, has: func(k int) bool { v, ok := m.Get(k); return ok && v == val(k) },
			inverse: func(k int) bool { x, ok := m.GetKey(val(k)); return ok && x == k },
			size:    m.Size, empty: m.Empty, clear: m.Clear, keys: m.Keys, nValues: func() int { return len(m.Values()) }}
	case 3:
		s := hashset.New[int]()
		a = hugeHashAPI{put: func(k int) { s.Add(k) }, remove: func(k int) { s.Remove(k) }, has: func(k int) bool { return s.Contains(k) },
			size: s.Size, empty: s.Empty, clear: s.Clear, keys: s.Values, nValues: func() int { return len(s.Values()) }}
	default:
		s := linkedhashset.New[int]()
		a = hugeHashAPI{put: func(k int) { s.Add(k) }, remove: func(k int) { s.Remove(k) }, has: func(k int) bool { return s.Contains(k) },
			size: s.Size, empty: s.Empty, clear: s.Clear, keys: s.Values, nValues: func() int { return len(s.Values()) }, ordered: true}
	}
	a.name = hugeHashNames[h%hugeHashKinds]
	r := c.R
	// live keys are 6*i for lo <= i < hi, inserted in that order
	check := func(when string, lo, hi int) {
		c.Begin(a.name, "checkpoint", when, hi-lo)
		cnt := hi - lo
		if a.size() != cnt || a.empty() != (cnt == 0) {
			c.Fail("size", "huge", "%s with %d entries (%s): Size() = %d, Empty() = %v", a.name, cnt, when, a.size(), a.empty())
		}
		ks := a.keys()
		if len(ks) != cnt || a.nValues() != cnt {
			c.Fail("keys", "huge-length", "%s with %d entries (%s): %d keys/members and %d values are enumerated", a.name, cnt, when, len(ks), a.nValues())
		}
		seen := make(map[int]bool, len(ks))
		for i, k := range ks {
			if k%6 != 0 || k/6 < lo || k/6 >= hi || seen[k] {
				c.Fail("keys", "huge-content", "%s with entries %d..%d (%s): enumerates %d (not live, or twice)", a.name, lo*6, hi*6-6, when, k)
			}
			seen[k] = true
			if a.ordered && k != (lo+i)*6 {
				c.Fail("order", "huge", "%s (%s): position %d of the enumeration is %d, insertion order says %d", a.name, when, i, k, (lo+i)*6)
			}
		}
		for j := 0; j < 300; j++ {
			i := r.Range(lo-50, hi+50)
			live := i >= lo && i < hi
			if a.has(i*6) != live {
				c.Fail("get", "huge", "%s with entries %d..%d (%s): lookup of %d says %v", a.name, lo*6, hi*6-6, when, i*6, !live)
			}
			if a.has(i*6 + 3) {
				c.Fail("get", "huge-absent", "%s (%s): lookup of the absent key %d succeeds", a.name, when, i*6+3)
			}
			if a.inverse != nil && a.inverse(i*6) != live {
				c.Fail("bidi-getkey", "huge", "%s with entries %d..%d (%s): GetKey of the value of key %d says %v", a.name, lo*6, hi*6-6, when, i*6, !live)
			}
		}
		c.Count("obs:huge-hash-checkpoints", 1)
	}
	c.Begin(a.name, "build", n)
	for i := 0; i < n; i++ {
		a.put(i * 6)
	}
	check("fully grown", 0, n)
	c.Begin(a.name, "Remove", "the older half, one by one")
	for i := 0; i < n/2; i++ {
		a.remove(i * 6)
	}
	check("after removing the older half", n/2, n)
	c.Begin(a.name, "Clear", "holding", n-n/2)
	a.clear()
	check("after Clear", 0, 0)
	c.Begin(a.name, "refill", 100)
	for i := 0; i < 100; i++ {
		a.put(i * 6)
	}
	check("refilled after Clear", 0, 100)
	// Clear again while large, from the fully grown state
	for i := 100; i < n; i++ {
		a.put(i * 6)
	}
	c.Begin(a.name, "Clear", "holding", n)
	a.clear()
	check("after the second Clear", 0, 0)
	a.put(6)
	check("one entry after the second Clear", 1, 2)
	c.Count("obs:huge-hash-cases", 1)
	c.Nontrivial()
}
