package props

import (
	"fmt"
	"github.com/emirpasic/gods/v2/lists"

	"godsverif/core"

	"github.com/emirpasic/gods/v2/containers"
	"github.com/emirpasic/gods/v2/lists/arraylist"
	"github.com/emirpasic/gods/v2/lists/doublylinkedlist"
	"github.com/emirpasic/gods/v2/lists/singlylinkedlist"
	"github.com/emirpasic/gods/v2/maps/linkedhashmap"
	"github.com/emirpasic/gods/v2/maps/treebidimap"
	"github.com/emirpasic/gods/v2/maps/treemap"
	"github.com/emirpasic/gods/v2/queues/arrayqueue"
	"github.com/emirpasic/gods/v2/queues/circularbuffer"
	"github.com/emirpasic/gods/v2/queues/linkedlistqueue"
	"github.com/emirpasic/gods/v2/queues/priorityqueue"
	"github.com/emirpasic/gods/v2/sets/linkedhashset"
	"github.com/emirpasic/gods/v2/sets/treeset"
	"github.com/emirpasic/gods/v2/stacks/arraystack"
	"github.com/emirpasic/gods/v2/stacks/linkedliststack"
	"github.com/emirpasic/gods/v2/trees/avltree"
	"github.com/emirpasic/gods/v2/trees/binaryheap"
	"github.com/emirpasic/gods/v2/trees/btree"
	"github.com/emirpasic/gods/v2/trees/redblacktree"
)

// cursor is the executable specification of an iterator: an integer position
// p in -1..n over the container's own sequence. The closures adapt one of the
// 18 iterator types.
type cursor struct {
	c      *core.Ctx
	name   string
	n      int
	p      int
	rev    bool
	next   func() bool
	prev   func() bool
	begin  func()
	end    func()
	first  func() bool
	last   func() bool
	nextTo func(kind, param int) bool
	prevTo func(kind, param int) bool
	match  func(kind, param, pos int) bool // the same predicate evaluated on the model sequence
	read   func(pos int) string            // reads Index/Key/Value at pos; "" if they are those of pos
	others func()                          // other read-only observers of the same container (Values, Keys, String)
	// reent: the NextTo/PrevTo predicates themselves read the container (through
	// others) every few invocations - pure, but re-entrant
	reent  bool
	pcalls int
}

// listGrow adds one value to a list by one of the routes the API offers (every
// one of them links or places the new element with its own code).
func listGrow(r *core.R, l lists.List[int], v int) {
	switch r.Intn(7) {
	case 0:
		l.Add(v)
	case 1:
		l.Insert(l.Size(), v)
	case 2:
		l.Set(l.Size(), v) // the documented append corner of Set
	case 3:
		if p, ok := l.(interface{ Prepend(...int) }); ok {
			p.Prepend(v)
		} else {
			l.Insert(0, v)
		}
	case 4:
		if p, ok := l.(interface{ Append(...int) }); ok {
			p.Append(v, v+6)
		} else {
			l.Add(v, v+6)
		}
	default:
		l.Insert(r.Range(0, l.Size()), v)
	}
}

func (cu *cursor) reenter() {
	cu.pcalls++
	every := 3
	if cu.n > 64 {
		if cu.name == "BinaryHeap" || cu.name == "PriorityQueue" {
			return // (the heap's Values() is quadratic in the level width)
		}
		every = cu.n + 7 // about once per full pass (String() of a big tree costs megabytes of copying)
	}
	if cu.reent && cu.others != nil && cu.pcalls%every == 1 {
		cu.others()
		cu.c.Count("obs:predicate-re-entered-container", 1)
	}
}

func withReader(cu *cursor, f func()) *cursor { cu.others = f; return cu }

func posClass(p, n int) string {
	switch {
	case p == -1:
		return "before-first"
	case p == n:
		return "past-last"
	case p == 0:
		return "first"
	case p == n-1:
		return "last"
	default:
		return "middle"
	}
}

const (
	predTrue = iota
	predFalse
	predIndexOrKey
	predValue
	predFrom
	predKinds
)

var predNames = []string{"always", "never", "by-index-or-key", "by-value", "at-or-after"}

func (cu *cursor) inRange() bool { return cu.p >= 0 && cu.p < cu.n }

func (cu *cursor) verify(op string, got bool, before int) {
	c := cu.c
	want := cu.inRange()
	c.Count("cell:"+cu.name+"/"+posClass(before, cu.n)+"/"+op, 1)
	if got != want {
		c.Fail("cursor", "return-value", "%s iterator: %s from position %d of -1..%d returned %v, cursor model is now at %d so want %v", cu.name, op, before, cu.n, got, cu.p, want)
	}
	if got {
		if msg := cu.read(cu.p); msg != "" {
			c.Fail("cursor", "element", "%s iterator: after %s from position %d (n=%d) the cursor model is at %d but %s", cu.name, op, before, cu.n, cu.p, msg)
		}
		c.Count("obs:read-after-move", 1)
	}
}

// step performs one call on the real iterator and on the cursor model.
func (cu *cursor) step(op string, kind, param int) {
	c := cu.c
	before := cu.p
	c.State(core.Mix(core.HashString(cu.name), uint64(cu.n), uint64(before+1), core.HashString(op), uint64(kind)))
	switch op {
	case "Next":
		c.Begin(cu.name, "Next")
		got := cu.next()
		if cu.p < cu.n {
			cu.p++
		}
		cu.verify(op, got, before)
	case "Prev":
		c.Begin(cu.name, "Prev")
		got := cu.prev()
		if cu.p > -1 {
			cu.p--
		}
		cu.verify(op, got, before)
	case "Begin":
		c.Begin(cu.name, "Begin")
		cu.begin()
		cu.p = -1
		c.Count("cell:"+cu.name+"/"+posClass(before, cu.n)+"/Begin", 1)
	case "End":
		c.Begin(cu.name, "End")
		cu.end()
		cu.p = cu.n
		c.Count("cell:"+cu.name+"/"+posClass(before, cu.n)+"/End", 1)
	case "First":
		c.Begin(cu.name, "First")
		got := cu.first()
		cu.p = 0
		if cu.n == 0 {
			cu.p = cu.n // First on empty: the cursor ran off the end
		}
		cu.verifyJump(op, got, before)
	case "Last":
		c.Begin(cu.name, "Last")
		got := cu.last()
		cu.p = cu.n - 1
		cu.verifyJump(op, got, before)
	case "NextTo":
		c.Begin(cu.name, "NextTo", predNames[kind], param)
		got := cu.nextTo(kind, param)
		q := cu.p + 1
		for q < cu.n && !cu.match(kind, param, q) {
			q++
		}
		if q > cu.n {
			q = cu.n
		}
		cu.p = q
		cu.verify(op, got, before)
	case "PrevTo":
		c.Begin(cu.name, "PrevTo", predNames[kind], param)
		got := cu.prevTo(kind, param)
		q := cu.p - 1
		for q >= 0 && !cu.match(kind, param, q) {
			q--
		}
		if q < -1 {
			q = -1
		}
		cu.p = q
		cu.verify(op, got, before)
	}
}

// verifyJump: First/Last jump to 0 / n-1 and return true exactly when the
// container is not empty (on an empty one these positions are the sentinels
// n and -1, which the following moves observe).
func (cu *cursor) verifyJump(op string, got bool, before int) {
	c := cu.c
	c.Count("cell:"+cu.name+"/"+posClass(before, cu.n)+"/"+op, 1)
	want := cu.n > 0
	if got != want {
		c.Fail("cursor", "return-value", "%s iterator: %s on a container of %d elements returned %v", cu.name, op, cu.n, got)
	}
	if got {
		if msg := cu.read(cu.p); msg != "" {
			c.Fail("cursor", "element", "%s iterator: after %s (n=%d) %s", cu.name, op, cu.n, msg)
		}
	}
}

func (cu *cursor) ops() []string {
	if cu.rev {
		return []string{"Next", "Prev", "Begin", "End", "First", "Last", "NextTo", "PrevTo"}
	}
	return []string{"Next", "Begin", "First", "NextTo"}
}

func (cu *cursor) randomStep() {
	r := cu.c.R
	var op string
	if cu.rev {
		op = []string{"Next", "Next", "Next", "Prev", "Prev", "Prev", "Begin", "End", "First", "Last", "NextTo", "PrevTo"}[r.Intn(12)]
	} else {
		op = []string{"Next", "Next", "Next", "Next", "Begin", "First", "NextTo"}[r.Intn(7)]
	}
	cu.step(op, r.Intn(predKinds), r.Range(0, cu.n))
}

// goTo brings a fresh cursor to position p by one of several routes.
func (cu *cursor) goTo(p int, route int) {
	if !cu.rev || route%2 == 0 || p == -1 {
		cu.step("Begin", 0, 0)
		for cu.p < p {
			cu.step("Next", 0, 0)
		}
		return
	}
	cu.step("End", 0, 0)
	for cu.p > p {
		cu.step("Prev", 0, 0)
	}
}

// ---- adapters ---------------------------------------------------------------

func hv[T any](v T) uint64 { return hashVals([]T{v}) }

func idxCursor[T comparable](c *core.Ctx, name string, it containers.IteratorWithIndex[T], seq []T) *cursor {
	pred := func(kind, param int) func(int, T) bool {
		return func(i int, v T) bool { return evalPred(kind, param, i, uint64(i), hv(v)) }
	}
	cu := &cursor{c: c, name: name, n: len(seq), p: -1, reent: c.Index%2 == 1}
	pure := pred
	pred = func(kind, param int) func(int, T) bool {
		f := pure(kind, param)
		return func(i int, v T) bool { cu.reenter(); return f(i, v) }
	}
	cu.next, cu.begin, cu.first = it.Next, it.Begin, it.First
	cu.nextTo = func(kind, param int) bool { return it.NextTo(pred(kind, param)) }
	cu.match = func(kind, param, pos int) bool { return evalPred(kind, param, pos, uint64(pos), hv(seq[pos])) }
	cu.read = func(pos int) string {
		if i, v := it.Index(), it.Value(); i != pos || v != seq[pos] {
			return fmt.Sprintf("Index() = %d, Value() = %v; position %d holds %v (sequence %s)", i, v, pos, seq[pos], short(seq))
		}
		return ""
	}
	if rit, ok := it.(containers.ReverseIteratorWithIndex[T]); ok {
		cu.rev = true
		cu.prev, cu.end, cu.last = rit.Prev, rit.End, rit.Last
		cu.prevTo = func(kind, param int) bool { return rit.PrevTo(pred(kind, param)) }
	}
	return cu
}

func keyCursor[K comparable, V comparable](c *core.Ctx, name string, it containers.IteratorWithKey[K, V], keys []K, vals []V) *cursor {
	posOf := func(k K) int {
		for i := range keys {
			if keys[i] == k {
				return i
			}
		}
		return -7
	}
	pred := func(kind, param int) func(K, V) bool {
		return func(k K, v V) bool { return evalPred(kind, param, posOf(k), hv(k), hv(v)) }
	}
	cu := &cursor{c: c, name: name, n: len(keys), p: -1, reent: c.Index%2 == 1}
	pure := pred
	pred = func(kind, param int) func(K, V) bool {
		f := pure(kind, param)
		return func(k K, v V) bool { cu.reenter(); return f(k, v) }
	}
	cu.next, cu.begin, cu.first = it.Next, it.Begin, it.First
	cu.nextTo = func(kind, param int) bool { return it.NextTo(pred(kind, param)) }
	cu.match = func(kind, param, pos int) bool { return evalPred(kind, param, pos, hv(keys[pos]), hv(vals[pos])) }
	cu.read = func(pos int) string {
		if k, v := it.Key(), it.Value(); k != keys[pos] || v != vals[pos] {
			return fmt.Sprintf("Key() = %v, Value() = %v; position %d holds (%v,%v) (keys %s)", k, v, pos, keys[pos], vals[pos], short(keys))
		}
		return ""
	}
	if rit, ok := it.(containers.ReverseIteratorWithKey[K, V]); ok {
		cu.rev = true
		cu.prev, cu.end, cu.last = rit.Prev, rit.End, rit.Last
		cu.prevTo = func(kind, param int) bool { return rit.PrevTo(pred(kind, param)) }
	}
	return cu
}

// evalPred is the predicate family: constant, by index/key, by value, and
// "position >= param" (the first of several matches must be the stop).
func evalPred(kind, param, pos int, keyHash, valHash uint64) bool {
	switch kind {
	case predTrue:
		return true
	case predFalse:
		return false
	case predIndexOrKey:
		return keyHash%3 == uint64(param%3)
	case predValue:
		return valHash%3 == uint64(param%3)
	default:
		return pos >= param-1 && pos <= param+1
	}
}

// ---- container states -------------------------------------------------------

var iterTypes = []string{"ArrayList", "SinglyLinkedList", "DoublyLinkedList", "TreeSet", "LinkedHashSet", "ArrayStack", "LinkedListStack", "ArrayQueue", "LinkedListQueue",
	"CircularBuffer", "PriorityQueue", "BinaryHeap", "TreeMap", "LinkedHashMap", "TreeBidiMap", "RedBlackTree", "AVLTree", "BTree"}

// buildCursor puts container kind `typ` into a state reached by a random
// history aiming at about n elements (exactly n when exact), and returns a
// cursor over a fresh iterator. mk may be called again for another iterator
// over the same, unmodified container.
func buildCursor(c *core.Ctx, typ string, n int, exact bool) (mk func() *cursor) {
	r := c.R
	d := IntDom(40)
	if n > 100 {
		d = IntDom(4 * n)
	}
	churn := func(add func(v int), remove func(), size func() int) {
		for size() < n {
			add(d.Val(r))
			if !exact && r.Chance(1, 5) {
				remove()
			}
		}
		if !exact {
			for k := r.Intn(4); k > 0 && size() > 0; k-- {
				remove()
			}
			for size() < n && r.Bool() {
				add(d.Val(r))
			}
		}
	}
	uniq := 0
	nextKey := func() int {
		if exact || r.Bool() {
			uniq++
			return uniq*6 + 1000
		}
		return d.Val(r)
	}
	switch typ {
	case "ArrayList":
		l := arraylist.New[int]()
		churn(func(v int) { listGrow(r, l, v) }, func() { l.Remove(r.Range(0, l.Size())) }, l.Size)
		return func() *cursor {
			return withReader(idxCursor[int](c, typ, l.Iterator(), l.Values()), func() { l.Values(); _ = l.String() })
		}
	case "SinglyLinkedList":
		l := singlylinkedlist.New[int]()
		churn(func(v int) { listGrow(r, l, v) }, func() { l.Remove(r.Range(0, l.Size())) }, l.Size)
		return func() *cursor {
			return withReader(idxCursor[int](c, typ, l.Iterator(), l.Values()), func() { l.Values(); _ = l.String() })
		}
	case "DoublyLinkedList":
		l := doublylinkedlist.New[int]()
		churn(func(v int) { listGrow(r, l, v) }, func() { l.Remove(r.Range(0, l.Size())) }, l.Size)
		return func() *cursor {
			it := l.Iterator()
			return withReader(idxCursor[int](c, typ, &it, l.Values()), func() { l.Values(); _ = l.String() })
		}
	case "TreeSet":
		cm := intCmps[[]int{0, 1, 3}[r.Intn(3)]]
		s := treeset.NewWith[int](cm.F)
		churn(func(v int) { s.Add(nextKey()) }, func() {
			if vs := s.Values(); len(vs) > 0 {
				s.Remove(vs[r.Intn(len(vs))])
			}
		}, s.Size)
		return func() *cursor {
			it := s.Iterator()
			return withReader(idxCursor[int](c, typ, &it, s.Values()), func() { s.Values(); _ = s.String() })
		}
	case "LinkedHashSet":
		s := linkedhashset.New[int]()
		churn(func(v int) { s.Add(nextKey()) }, func() {
			if vs := s.Values(); len(vs) > 0 {
				s.Remove(vs[r.Intn(len(vs))])
			}
		}, s.Size)
		return func() *cursor {
			it := s.Iterator()
			return withReader(idxCursor[int](c, typ, &it, s.Values()), func() { s.Values(); _ = s.String() })
		}
	case "ArrayStack":
		s := arraystack.New[int]()
		churn(func(v int) { s.Push(v) }, func() { s.Pop() }, s.Size)
		return func() *cursor {
			return withReader(idxCursor[int](c, typ, s.Iterator(), s.Values()), func() { s.Values(); _ = s.String() })
		}
	case "LinkedListStack":
		s := linkedliststack.New[int]()
		churn(func(v int) { s.Push(v) }, func() { s.Pop() }, s.Size)
		return func() *cursor {
			return withReader(idxCursor[int](c, typ, s.Iterator(), s.Values()), func() { s.Values(); _ = s.String() })
		}
	case "ArrayQueue":
		q := arrayqueue.New[int]()
		churn(func(v int) { q.Enqueue(v) }, func() { q.Dequeue() }, q.Size)
		return func() *cursor {
			return withReader(idxCursor[int](c, typ, q.Iterator(), q.Values()), func() { q.Values(); _ = q.String() })
		}
	case "LinkedListQueue":
		q := linkedlistqueue.New[int]()
		churn(func(v int) { q.Enqueue(v) }, func() { q.Dequeue() }, q.Size)
		return func() *cursor {
			return withReader(idxCursor[int](c, typ, q.Iterator(), q.Values()), func() { q.Values(); _ = q.String() })
		}
	case "CircularBuffer":
		cp := n + r.Intn(3)
		if cp < 1 {
			cp = 1
		}
		q := circularbuffer.New[int](cp)
		// rotate the start offset so that wrapped states are iterated
		for k := r.Intn(2 * cp); k > 0; k-- {
			q.Enqueue(d.Val(r))
			if r.Bool() {
				q.Dequeue()
			}
		}
		for q.Size() > n {
			q.Dequeue()
		}
		for q.Size() < n {
			q.Enqueue(d.Val(r))
		}
		return func() *cursor {
			return withReader(idxCursor[int](c, typ, q.Iterator(), q.Values()), func() { q.Values(); _ = q.String() })
		}
	case "PriorityQueue":
		q := priorityqueue.NewWith[int](intCmps[r.Intn(4)].F)
		churn(func(v int) { q.Enqueue(v) }, func() { q.Dequeue() }, q.Size)
		return func() *cursor {
			return withReader(idxCursor[int](c, typ, q.Iterator(), q.Values()), func() { q.Values(); _ = q.String() })
		}
	case "BinaryHeap":
		h := binaryheap.NewWith[int](intCmps[r.Intn(4)].F)
		churn(func(v int) { h.Push(v) }, func() { h.Pop() }, h.Size)
		return func() *cursor {
			return withReader(idxCursor[int](c, typ, h.Iterator(), h.Values()), func() { h.Values(); _ = h.String() })
		}
	}
	// key iterators
	val := 0
	nv := func() int { val++; return val }
	vals := func(keys []int, get func(int) (int, bool)) []int {
		out := make([]int, len(keys))
		for i, k := range keys {
			out[i], _ = get(k)
		}
		return out
	}
	rmKey := func(keys []int) (int, bool) {
		if len(keys) == 0 {
			return 0, false
		}
		return keys[r.Intn(len(keys))], true
	}
	cm := intCmps[[]int{0, 1, 3}[r.Intn(3)]]
	switch typ {
	case "TreeMap":
		m := treemap.NewWith[int, int](cm.F)
		churn(func(int) { m.Put(nextKey(), nv()) }, func() {
			if k, ok := rmKey(m.Keys()); ok {
				m.Remove(k)
			}
		}, m.Size)
		return func() *cursor {
			ks := m.Keys()
			return withReader(keyCursor[int, int](c, typ, m.Iterator(), ks, vals(ks, m.Get)), func() { m.Keys(); m.Values(); _ = m.String() })
		}
	case "LinkedHashMap":
		m := linkedhashmap.New[int, int]()
		churn(func(int) { m.Put(nextKey(), nv()) }, func() {
			if k, ok := rmKey(m.Keys()); ok {
				m.Remove(k)
			}
		}, m.Size)
		return func() *cursor {
			ks := m.Keys()
			return withReader(keyCursor[int, int](c, typ, m.Iterator(), ks, vals(ks, m.Get)), func() { m.Keys(); m.Values(); _ = m.String() })
		}
	case "TreeBidiMap":
		m := treebidimap.NewWith[int, int](cm.F, intCmps[[]int{0, 1, 3}[r.Intn(3)]].F)
		churn(func(int) { m.Put(nextKey(), nv()) }, func() {
			if k, ok := rmKey(m.Keys()); ok {
				m.Remove(k)
			}
		}, m.Size)
		// Values() is value-sorted, hence Get for the value at each key
		return func() *cursor {
			ks := m.Keys()
			return withReader(keyCursor[int, int](c, typ, m.Iterator(), ks, vals(ks, m.Get)), func() { m.Keys(); m.Values(); _ = m.String() })
		}
	case "RedBlackTree":
		m := redblacktree.NewWith[int, int](cm.F)
		churn(func(int) { m.Put(nextKey(), nv()) }, func() {
			if k, ok := rmKey(m.Keys()); ok {
				m.Remove(k)
			}
		}, m.Size)
		return func() *cursor {
			ks := m.Keys()
			return withReader(keyCursor[int, int](c, typ, m.Iterator(), ks, vals(ks, m.Get)), func() { m.Keys(); m.Values(); _ = m.String() })
		}
	case "AVLTree":
		m := avltree.NewWith[int, int](cm.F)
		churn(func(int) { m.Put(nextKey(), nv()) }, func() {
			if k, ok := rmKey(m.Keys()); ok {
				m.Remove(k)
			}
		}, m.Size)
		return func() *cursor {
			ks := m.Keys()
			return withReader(keyCursor[int, int](c, typ, m.Iterator(), ks, vals(ks, m.Get)), func() { m.Keys(); m.Values(); _ = m.String() })
		}
	case "BTree":
		m := btree.NewWith[int, int](btreeOrders[r.Intn(6)], cm.F)
		churn(func(int) { m.Put(nextKey(), nv()) }, func() {
			if k, ok := rmKey(m.Keys()); ok {
				m.Remove(k)
			}
		}, m.Size)
		return func() *cursor {
			ks := m.Keys()
			return withReader(keyCursor[int, int](c, typ, m.Iterator(), ks, vals(ks, m.Get)), func() { m.Keys(); m.Values(); _ = m.String() })
		}
	}
	panic("unknown iterator type " + typ)
}

// runCursorSweep: for every n <= 6, every position p, every op (with two
// routes to p and a few predicates), followed by Next and Prev to observe
// saturation and direction reversal.
func runCursorSweep(c *core.Ctx, typ string) {
	for n := 0; n <= 6; n++ {
		mk := buildCursor(c, typ, n, true)
		probe := mk()
		if probe.n != n {
			c.Fail("harness", "", "%s state has %d elements, wanted %d", typ, probe.n, n)
		}
		for p := -1; p <= n; p++ {
			for _, op := range probe.ops() {
				for route := 0; route < 2; route++ {
					kinds := []int{0}
					if op == "NextTo" || op == "PrevTo" {
						kinds = []int{predTrue, predFalse, predIndexOrKey, predValue, predFrom}
					}
					for _, kind := range kinds {
						cu := mk()
						cu.goTo(p, route)
						cu.step(op, kind, c.R.Range(0, n))
						follow := []string{"Next", "Next"}
						if cu.rev {
							follow = [][]string{{"Prev", "Next", "Next"}, {"Next", "Prev", "Prev"}}[route]
						}
						for _, f := range follow {
							cu.step(f, 0, 0)
						}
					}
				}
			}
		}
	}
	c.Nontrivial()
}

func runCursorRandom(c *core.Ctx, typ string) {
	r := c.R
	n := []int{0, 1, 2, 3, r.Range(4, 12), r.Range(4, 12), r.Range(13, 70)}[r.Intn(7)]
	big := c.Index%151 == 29 && !c.Concurrent
	if big {
		n = r.Range(300, 1500) // deep trees, long lists, large rings
		c.Count("obs:big-iterated-containers", 1)
	}
	mk := buildCursor(c, typ, n, false)
	for round := 0; round < 3; round++ {
		cu := mk()
		// a second cursor over the same, unmodified container and the
		// container's other observers run interleaved with the first: readers
		// do not count as modification, so each cursor must be unaffected
		other := mk()
		steps := r.Range(40, 200)
		if big {
			steps = 60
			if cu.rev {
				cu.step("End", 0, 0)
			}
		}
		for s := 0; s < steps; s++ {
			if round > 0 {
				switch r.Intn(6) {
				case 0:
					other.randomStep()
					c.Count("obs:interleaved-second-cursor-steps", 1)
				case 1:
					if cu.others != nil {
						c.Begin(cu.name, "Values/Keys/String-during-iteration")
						cu.others()
					}
				}
			}
			cu.randomStep()
			// direction reversal at the sentinels
			if cu.rev && (cu.p == -1 || cu.p == cu.n) && r.Chance(1, 2) {
				if cu.p == -1 {
					cu.step("Prev", 0, 0)
					cu.step("Next", 0, 0)
					c.Count("reversal:"+cu.name+"/before-first", 1)
				} else {
					cu.step("Next", 0, 0)
					cu.step("Prev", 0, 0)
					c.Count("reversal:"+cu.name+"/past-last", 1)
				}
			}
		}
	}
	c.Nontrivial()
}

// cursorSweepOn drives fresh iterators of tree a through every position and
// operation (the sweep of runCursorSweep, on a given state).
func cursorSweepOn(c *core.Ctx, a *KV[int, int]) {
	ks := append([]int(nil), a.M.Keys()...)
	vs := make([]int, len(ks))
	for i, k := range ks {
		vs[i], _ = a.M.Get(k)
	}
	n := len(ks)
	mk := func() *cursor { return keyCursor[int, int](c, a.Name, a.Iter(), ks, vs) }
	for p := -1; p <= n; p++ {
		for _, op := range []string{"Next", "Prev", "First", "Last", "NextTo", "PrevTo"} {
			route := (p + len(op)) % 2
			kind := []int{predTrue, predFalse, predIndexOrKey, predValue, predFrom}[(p+n+len(op))%5]
			cu := mk()
			cu.goTo(p, route)
			cu.step(op, kind, (p+2)%(n+1))
			for _, f := range [][]string{{"Prev", "Next", "Next"}, {"Next", "Prev", "Prev"}}[route] {
				cu.step(f, 0, 0)
			}
		}
	}
	c.Count("exhaustive:iterator-sweeps-on-distinct-tree-states", 1)
}

func runC08(c *core.Ctx) {
	if plans := exhaustivePlans(c.Tier); c.Index < len(plans) {
		p := plans[c.Index]
		if p.k > 8 {
			return // the sweep on every state of the largest universes is left to C01/C02/C07
		}
		exhaustiveTree(c, p.label, p.mk, p.k, 400000, func(m *KVMon[int, int]) {}, func(a *KV[int, int]) { cursorSweepOn(c, a) })
		return
	}
	typ := iterTypes[c.Index%len(iterTypes)]
	if c.Index < 2*len(iterTypes) {
		runCursorSweep(c, typ)
		return
	}
	runCursorRandom(c, typ)
}

var iterFiles = []string{"lists/arraylist/iterator.go", "lists/singlylinkedlist/iterator.go", "lists/doublylinkedlist/iterator.go", "sets/treeset/iterator.go", "sets/linkedhashset/iterator.go",
	"stacks/arraystack/iterator.go", "stacks/linkedliststack/iterator.go", "queues/arrayqueue/iterator.go", "queues/linkedlistqueue/iterator.go", "queues/circularbuffer/iterator.go", "queues/priorityqueue/iterator.go",
	"maps/treemap/iterator.go", "maps/linkedhashmap/iterator.go", "maps/treebidimap/iterator.go", "trees/redblacktree/iterator.go", "trees/avltree/iterator.go", "trees/btree/iterator.go", "trees/binaryheap/iterator.go"}

func init() {
	core.Register(&core.Prop{
		ID:    "C08",
		Title: "Iterators are cursors over positions -1..n of the container's sequence",
		Cases: func(tier string) int { return tierN(tier, 36000, 2880000) },
		Run:   runC08,
		Rule: "the first cases visit every reachable state of RedBlackTree, AVLTree and BTree (orders 3..6) over universes of up to 8 keys (see exhaustive_small_scope) and sweep a fresh iterator through every position and operation on each; " +
			"next, a deterministic sweep per iterator type (18 types, two seeds): every n <= 6, every position -1..n reached by two routes, every operation (Next/Prev/Begin/End/First/Last and NextTo/PrevTo with five predicates), followed by reversal steps; " +
			"other cases: a container of the type in a state reached by a random history (n in {0,1,2,3,4..70}, wrapped rings, trees after removals, B-tree orders 3..8), three fresh iterators each driven by 40-200 random calls with extra reversals at both sentinels. " +
			"Each call is mirrored on an integer cursor over the container's own Values()/Keys() sequence; Index/Key/Value are read only after a successful move. Every case is non-trivial (>= 100 iterator calls); distinct = distinct hash of the call list.",
		Floors: func(tier string, m map[string]int64) []string {
			f := &floorCheck{m: m}
			f.atLeast("obs:predicate-re-entered-container", 5000)
			rev := map[string]bool{"SinglyLinkedList": false, "LinkedListStack": false, "LinkedListQueue": false}
			for _, t := range iterTypes {
				ops := []string{"Next", "Begin", "First", "NextTo"}
				if _, fwd := rev[t]; !fwd {
					ops = []string{"Next", "Prev", "Begin", "End", "First", "Last", "NextTo", "PrevTo"}
					f.atLeast("reversal:"+t+"/before-first", 500)
					f.atLeast("reversal:"+t+"/past-last", 500)
				}
				for _, op := range ops {
					for _, pc := range []string{"before-first", "first", "middle", "last", "past-last"} {
						f.atLeast("cell:"+t+"/"+pc+"/"+op, 50)
					}
				}
			}
			return f.missing
		},
		Files: iterFiles,
		Assumptions: []string{
			"the container is not modified while an iterator is in use; Index/Key/Value are read only after a move that returned true",
			"after First/Last on an empty container only the return value (false) and the results of later moves are constrained",
			"a clean run says the property held on the executed call sequences only",
		},
	})
}
