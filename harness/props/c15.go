package props

import (
	"fmt"
	"math"
	"reflect"
	"strings"

	"godsverif/core"

	"github.com/emirpasic/gods/v2/maps/hashbidimap"
	"github.com/emirpasic/gods/v2/maps/hashmap"
	"github.com/emirpasic/gods/v2/sets/hashset"
)

// checkAgreement: the observers of the Container interface agree with each
// other in the current state, and String() is a pure observer that begins
// with the container's name.
func checkAgreement(c *core.Ctx, d *Dyn) {
	sz := d.C.Size()
	if sz < 0 {
		c.Fail("agreement", "negative-size", "%s.Size() = %d", d.Kind, sz)
	}
	if e := d.C.Empty(); e != (sz == 0) {
		c.Fail("agreement", "empty-vs-size", "%s: Empty() = %v but Size() = %d", d.Kind, e, sz)
	}
	if vs := d.Values(); len(vs) != sz {
		c.Fail("agreement", "values-vs-size", "%s: len(Values()) = %d but Size() = %d", d.Kind, len(vs), sz)
	}
	if d.Keys != nil {
		if ks := d.Keys(); len(ks) != sz {
			c.Fail("agreement", "keys-vs-size", "%s: len(Keys()) = %d but Size() = %d", d.Kind, len(ks), sz)
		}
	}
	c.Count("obs:agreement", 1)
	if c.R.Intn(4) == 0 {
		before := d.Observe(false)
		c.Begin(d.Kind, "String")
		s := d.C.String()
		if !strings.HasPrefix(s, d.Kind) {
			c.Fail("string", "prefix", "%s.String() = %q does not begin with the container's name", d.Kind, s)
		}
		if diff := before.Diff(d.Observe(false)); diff != "" {
			c.Fail("string", "not-pure", "%s.String() altered the container: %s", d.Kind, diff)
		}
		c.Count("obs:String", 1)
	}
	c.State(core.Mix(core.HashString(d.Kind), uint64(sz)))
}

// runC15NaN: hash containers whose float keys include NaN (a key that is not
// equal to itself, so it can be neither found nor deleted one by one). Size,
// Empty, Values and Clear must still agree; only lengths are compared.
func runC15NaN(c *core.Ctx) {
	nan := math.NaN()
	type cont interface {
		Size() int
		Empty() bool
		Clear()
		String() string
	}
	check := func(name string, x cont, lenValues func() int, want int) {
		if x.Size() != want || x.Empty() != (want == 0) || lenValues() != want {
			c.Fail("agreement", "nan-keys", "%s holding %d elements, some of them NaN: Size() = %d, Empty() = %v, len(Values()) = %d", name, want, x.Size(), x.Empty(), lenValues())
		}
		c.Count("obs:agreement-with-NaN-keys", 1)
	}
	hs := hashset.New[float64]()
	c.Begin("HashSet", "Add", "1.5, NaN, NaN, 2.5")
	hs.Add(1.5, nan, nan, 2.5) // every NaN is a member of its own
	check("HashSet", hs, func() int { return len(hs.Values()) }, 4)
	c.Begin("HashSet", "Clear")
	hs.Clear()
	check("HashSet", hs, func() int { return len(hs.Values()) }, 0)
	hs.Add(3.5)
	check("HashSet", hs, func() int { return len(hs.Values()) }, 1)

	hm := hashmap.New[float64, int]()
	c.Begin("HashMap", "Put", "NaN twice, 1.5")
	hm.Put(nan, 1)
	hm.Put(nan, 2)
	hm.Put(1.5, 3)
	check("HashMap", hm, func() int { return len(hm.Values()) }, 3)
	if len(hm.Keys()) != 3 {
		c.Fail("agreement", "nan-keys", "HashMap holding 3 entries (two NaN keys): len(Keys()) = %d", len(hm.Keys()))
	}
	c.Begin("HashMap", "Clear")
	hm.Clear()
	check("HashMap", hm, func() int { return len(hm.Values()) }, 0)

	hb := hashbidimap.New[float64, int]()
	c.Begin("HashBidiMap", "Put", "NaN, 1.5")
	hb.Put(nan, 1)
	hb.Put(1.5, 2)
	check("HashBidiMap", hb, func() int { return len(hb.Values()) }, 2)
	c.Begin("HashBidiMap", "Clear")
	hb.Clear()
	check("HashBidiMap", hb, func() int { return len(hb.Values()) }, 0)
	c.Nontrivial()
}

// argFreeSnapshot calls every exported method of x that takes no argument and
// does not mutate, and records the nil-ness of exported pointer fields. Values
// are rendered with %v; pointers only as nil / non-nil (addresses differ).
func argFreeSnapshot(x any) map[string]string {
	out := map[string]string{}
	v := reflect.ValueOf(x)
	t := v.Type()
	render := func(o reflect.Value) string {
		switch o.Kind() {
		case reflect.Ptr, reflect.Map, reflect.Func, reflect.Chan:
			if o.IsNil() {
				return "nil"
			}
			return "non-nil"
		case reflect.Interface:
			if o.IsNil() {
				return "nil"
			}
			return fmt.Sprintf("%v", o.Interface())
		case reflect.Slice:
			if o.Len() == 0 {
				return "[]" // nil and empty slices are the same observation
			}
		}
		return fmt.Sprintf("%v", o.Interface())
	}
	for i := 0; i < t.NumMethod(); i++ {
		m := t.Method(i)
		if v.Method(i).Type().NumIn() != 0 || v.Method(i).Type().NumOut() == 0 {
			continue
		}
		switch m.Name {
		case "Pop", "Dequeue", "Iterator", "Clear":
			continue
		case "Values", "Keys", "String", "ToJSON", "MarshalJSON":
			continue // compared separately (as multisets for the unordered containers)
		}
		var parts []string
		for _, o := range v.Method(i).Call(nil) {
			if o.Kind() == reflect.Struct {
				parts = append(parts, "struct") // iterators by value etc.
				continue
			}
			parts = append(parts, render(o))
		}
		out[m.Name+"()"] = strings.Join(parts, ",")
	}
	if v.Kind() == reflect.Ptr && v.Elem().Kind() == reflect.Struct {
		e := v.Elem()
		for f := 0; f < e.NumField(); f++ {
			if sf := e.Type().Field(f); sf.IsExported() && e.Field(f).Kind() == reflect.Ptr {
				out["field "+sf.Name] = render(e.Field(f))
			}
		}
	}
	return out
}

func runC15(c *core.Ctx) {
	r := c.R
	if c.Index < hugeCases {
		// agreement at a scale where fixed-size scratch space gives out
		c.Only = func(kind string) bool { return kind == "size" || kind == "empty" || kind == "keys" }
		runHugeTree(c, c.Index, hugeN(c.Tier), func(m *KVMon[int, int]) {})
		return
	}
	if c.Index%997 == 500 {
		runC15NaN(c)
		return
	}
	if h := c.Index - hugeCases; h >= 0 && h < hugeLinearKinds {
		c.Only = func(kind string) bool {
			return kind == "size" || kind == "empty" || kind == "values" || kind == "string"
		}
		runHugeLinear(c, h, hugeLinearN(c.Tier))
		return
	}
	if h := c.Index - hugeCases - hugeLinearKinds; h >= 0 && h < hugeHashKinds {
		c.Only = func(kind string) bool { return kind == "size" || kind == "empty" || kind == "keys" || kind == "values" }
		runHugeHash(c, h) // Size/Empty/Keys/Values agreement and Clear beyond 4096 entries
		return
	}
	kind := dynKinds[c.Index%len(dynKinds)]
	d := newDynRandom(c, kind, false)
	checkAgreement(c, d)
	steps := r.Range(5, 80)
	for s := 0; s < steps; s++ {
		if r.Intn(12) == 0 {
			// loading is a mutation like any other (and one more path on which a
			// cached size or cached view has to be invalidated)
			if r.Bool() && d.GenDoc != nil {
				// a document some other producer wrote: repeated keys, values
				// repeated under different keys (what a bidirectional map has to
				// resolve), arbitrary member order
				data := d.GenDoc(r, r.Range(0, 12), r.Bool(), true)
				c.Begin(kind, "FromJSON", string(data))
				d.JSON.FromJSON(data)
				c.Count("obs:loads-of-foreign-documents-inside-histories", 1)
			} else {
				o := d.Fresh()
				o.build(c, r.Range(0, 12))
				if data, err := o.JSON.ToJSON(); err == nil {
					c.Begin(kind, "FromJSON", string(data))
					d.JSON.FromJSON(data)
					c.Count("obs:loads-inside-histories", 1)
				}
			}
		} else {
			d.Mutate(c)
		}
		checkAgreement(c, d)
	}
	// Clear at this (random) point of the history, then run in lockstep with
	// a freshly constructed container of the same configuration.
	wasSize := d.C.Size()
	c.Begin(kind, "Clear")
	d.C.Clear()
	if d.C.Size() != 0 || !d.C.Empty() || len(d.Values()) != 0 {
		c.Fail("clear", "not-empty", "%s.Clear() on %d elements left Size()=%d Empty()=%v len(Values())=%d", kind, wasSize, d.C.Size(), d.C.Empty(), len(d.Values()))
	}
	if wasSize > 0 {
		c.Count("clear:non-empty", 1)
	}
	fresh := d.Fresh()
	compare := func(when string) {
		// every argument-free exported method (Height, Left, Right, LeftKey, Min,
		// Max, Peek, Full, ...) and the nil-ness of exported pointer fields (Root)
		sc0, sf0 := argFreeSnapshot(d.Raw), argFreeSnapshot(fresh.Raw)
		for _, name := range core.SortedKeys(sf0) {
			if sc0[name] != sf0[name] {
				c.Fail("clear", "differs-from-fresh-"+name, "%s(%s %s) cleared after %d elements vs freshly constructed, %s: %s is %s on the cleared container and %s on the fresh one", kind, d.Elem, d.Config, wasSize, when, name, sc0[name], sf0[name])
			}
		}
		oc, of := d.Observe(true), fresh.Observe(true)
		if diff := oc.Diff(of); diff != "" {
			c.Fail("clear", "differs-from-fresh", "%s(%s %s) cleared after %d elements vs freshly constructed, %s: %s", kind, d.Elem, d.Config, wasSize, when, diff)
		}
		if d.Walk != nil {
			wc, wf := d.Walk(), fresh.Walk()
			if len(wc) != len(wf) {
				c.Fail("clear", "iteration-differs-from-fresh", "%s cleared vs fresh, %s: iteration yields %d vs %d elements", kind, when, len(wc), len(wf))
			}
			for i := range wc {
				if wc[i] != wf[i] {
					c.Fail("clear", "iteration-differs-from-fresh", "%s cleared vs fresh, %s: iteration differs at %d: %v vs %v", kind, when, i, wc[i], wf[i])
				}
			}
		}
		sc, sf := d.C.String(), fresh.C.String()
		if d.Ordered && sc != sf {
			c.Fail("clear", "string-differs-from-fresh", "%s cleared vs fresh, %s: String() %q vs %q", kind, when, sc, sf)
		}
		c.Count("obs:cleared-vs-fresh", 1)
	}
	compare("right after Clear")
	cont := r.Range(5, 40)
	realR := c.R
	for s := 0; s < cont; s++ {
		seed := realR.U64()
		c.R = core.NewR(seed)
		d.Mutate(c)
		c.R = core.NewR(seed)
		c.Note("same call on the fresh container")
		saved := c.St
		fresh.Mutate(c)
		_ = saved
		c.R = realR
		compare("after the same continuation")
		checkAgreement(c, d)
		if d.Take != nil && realR.Intn(6) == 0 {
			a, aok := d.Take()
			b, bok := fresh.Take()
			if a != b || aok != bok {
				c.Fail("clear", "take-differs-from-fresh", "%s cleared vs fresh: removal returns (%v,%v) vs (%v,%v)", kind, a, aok, b, bok)
			}
		}
	}
	c.Nontrivial()
}

var allContainerFiles = []string{"lists/arraylist/arraylist.go", "lists/singlylinkedlist/singlylinkedlist.go", "lists/doublylinkedlist/doublylinkedlist.go", "sets/hashset/hashset.go", "sets/treeset/treeset.go", "sets/linkedhashset/linkedhashset.go",
	"stacks/arraystack/arraystack.go", "stacks/linkedliststack/linkedliststack.go", "queues/arrayqueue/arrayqueue.go", "queues/linkedlistqueue/linkedlistqueue.go", "queues/circularbuffer/circularbuffer.go", "queues/priorityqueue/priorityqueue.go",
	"maps/hashmap/hashmap.go", "maps/treemap/treemap.go", "maps/linkedhashmap/linkedhashmap.go", "maps/hashbidimap/hashbidimap.go", "maps/treebidimap/treebidimap.go", "trees/redblacktree/redblacktree.go", "trees/avltree/avltree.go", "trees/btree/btree.go", "trees/binaryheap/binaryheap.go"}

func init() {
	core.Register(&core.Prop{
		ID:    "C15",
		Title: "Size, Empty, Values, Keys and Clear agree on every container",
		Cases: func(tier string) int { return tierN(tier, 42000, 840000) },
		Run:   runC15,
		Rule: "one container per case, cycling through all 21 kinds (int or string elements; four key/value type pairs; random comparator, ring capacity, B-tree order); a random history of 5-80 mutating calls with hostile arguments, " +
			"after each of which Empty <=> Size==0, len(Values)==Size>=0, len(Keys)==Size are checked and String() (prefix, purity) on every 4th; then Clear at that point and a continuation of 5-40 calls applied identically to the cleared container " +
			"and to a freshly constructed one of the same configuration, comparing every observer (Size, Empty, Values, Keys, Get of every key, ToJSON, iteration, String, Pop/Dequeue results) after each call. " +
			"Every case is non-trivial (>= 10 mutating calls and a Clear); distinct = distinct hash of the call list.",
		Floors: func(tier string, m map[string]int64) []string {
			f := &floorCheck{m: m}
			f.atLeast("obs:loads-of-foreign-documents-inside-histories", 5000)
			f.atLeast("obs:loads-inside-histories", 5000)
			f.atLeast("obs:huge-hash-cases", hugeHashKinds)
			f.atLeast("obs:agreement", 200000)
			f.atLeast("obs:String", 30000)
			f.atLeast("obs:cleared-vs-fresh", 50000)
			f.atLeast("clear:non-empty", 4000)
			for _, k := range dynKinds {
				f.atLeast("call:"+k+".Clear", 200)
			}
			return f.missing
		},
		Files: allContainerFiles,
		Assumptions: []string{
			"hash containers are compared as multisets; nil and empty slices are equal; String() of unordered containers is compared only for its prefix",
			"a clean run says the property held on the executed histories only",
		},
	})
}
