package props

import (
	"cmp"
	"encoding/json"
	"sort"

	"godsverif/core"

	"github.com/emirpasic/gods/v2/containers"
	"github.com/emirpasic/gods/v2/queues/priorityqueue"
	"github.com/emirpasic/gods/v2/trees/binaryheap"
)

// E is a heap element: priority P plus a unique ID, so elements that compare
// equal stay distinguishable (loss, duplication or alteration among ties is
// visible).
type E struct {
	P  int `json:"p"`
	ID int `json:"id"`
}

var eCmps = []NamedCmp[E]{
	{"min-by-P", func(a, b E) int { return cmp.Compare(a.P, b.P) }},
	{"max-by-P", func(a, b E) int { return cmp.Compare(b.P, a.P) }},
	{"all-equal", func(a, b E) int { return 0 }},
	{"total-P-then-ID", func(a, b E) int {
		if c := cmp.Compare(a.P, b.P); c != 0 {
			return c
		}
		return cmp.Compare(a.ID, b.ID)
	}},
	{"coarse-P/3", func(a, b E) int { return cmp.Compare(floorDiv(a.P, 3), floorDiv(b.P, 3)) }},
	{"min-by-P-unnormalised", func(a, b E) int { return scale(cmp.Compare(a.P, b.P), uint64(a.P*31+b.P)) }},
}

// HeapMon shadows a BinaryHeap or PriorityQueue with a multiset.
type HeapMon struct {
	c      *core.Ctx
	Name   string
	C      containers.Container[E]
	Push   func(vs ...E) // bulk push (heap) or repeated Enqueue (queue)
	PushOp string
	Pop    func() (E, bool)
	PopOp  string
	Peek   func() (E, bool)
	Iter   func() containers.ReverseIteratorWithIndex[E]
	JSON   jsonAPI
	Cmp    NamedCmp[E]
	Bulk   bool
	Set    map[E]int
	N      int
	nextID int
}

// guarded is the comparator as the LIBRARY gets it: every element the harness
// ever pushes or loads has an ID >= 1, the zero value and the value the harness
// scribbles over its own batch buffers after the call (ID -1) are not elements.
// A comparator is defined on the elements of the container; being handed
// anything else (a fabricated zero value for a child that does not exist, a
// slot of a buffer the caller has taken back) is a call the caller's
// comparator may not survive.
func guarded(c *core.Ctx, name string, cm NamedCmp[E]) func(a, b E) int {
	return func(a, b E) int {
		if a.ID <= 0 || b.ID <= 0 {
			c.Fail("comparator", "foreign-argument", "%s called its comparator %s with (%v, %v): one of them was never pushed or loaded", name, cm.Name, a, b)
		}
		return cm.F(a, b)
	}
}

func newHeapMon(c *core.Ctx, cm NamedCmp[E]) *HeapMon {
	c.Begin("BinaryHeap", "NewWith", cm.Name)
	h := binaryheap.NewWith[E](guarded(c, "BinaryHeap", cm))
	return &HeapMon{c: c, Name: "BinaryHeap", C: h, Push: h.Push, PushOp: "Push", Pop: h.Pop, PopOp: "Pop", Peek: h.Peek,
		Iter: func() containers.ReverseIteratorWithIndex[E] { return h.Iterator() }, JSON: h, Cmp: cm, Bulk: true, Set: map[E]int{}}
}

func newPQMon(c *core.Ctx, cm NamedCmp[E]) *HeapMon {
	c.Begin("PriorityQueue", "NewWith", cm.Name)
	q := priorityqueue.NewWith[E](guarded(c, "PriorityQueue", cm))
	return &HeapMon{c: c, Name: "PriorityQueue", C: q, Push: func(vs ...E) {
		for _, v := range vs {
			q.Enqueue(v)
		}
	}, PushOp: "Enqueue", Pop: q.Dequeue, PopOp: "Dequeue", Peek: q.Peek,
		Iter: func() containers.ReverseIteratorWithIndex[E] { return q.Iterator() }, JSON: q, Cmp: cm, Set: map[E]int{}}
}

func (m *HeapMon) fresh(p int) E { m.nextID++; return E{P: p, ID: m.nextID} }

func (m *HeapMon) DoPush(vs []E) {
	m.c.Begin(m.Name, m.PushOp, len(vs), vs)
	arg := append(make([]E, 0, len(vs)+4), vs...) // the caller's batch buffer, with spare capacity
	m.Push(arg...)
	for _, v := range vs {
		m.Set[v]++
		m.N++
	}
	scribble(arg, E{P: -1 << 40, ID: -1}) // ... which the caller then reuses
	m.c.Count("heap:push-k="+countClass(len(vs)), 1)
	m.Check()
}

// minimal reports whether no contained element precedes e.
func (m *HeapMon) minimal(e E) (E, bool) {
	for x := range m.Set {
		if m.Cmp.F(x, e) < 0 {
			return x, false
		}
	}
	return e, true
}

func (m *HeapMon) DoPop() (E, bool) {
	c := m.c
	c.Begin(m.Name, m.PopOp)
	e, ok := m.Pop()
	if m.N == 0 {
		if ok || e != (E{}) {
			c.Fail("pop", "empty", "%s.%s() on empty = (%v,%v), want (zero,false)", m.Name, m.PopOp, e, ok)
		}
		c.Count("heap:pop-on-empty", 1)
		m.Check()
		return e, false
	}
	if !ok {
		c.Fail("pop", "not-ok", "%s.%s() reports empty but %d elements are contained", m.Name, m.PopOp, m.N)
	}
	if m.Set[e] == 0 {
		c.Fail("pop", "not-a-member", "%s.%s() = %v, which is not a contained element (lost, duplicated or altered)", m.Name, m.PopOp, e)
	}
	if x, min := m.minimal(e); !min {
		c.Fail("pop", "not-minimal", "%s(%s).%s() = %v although contained element %v precedes it", m.Name, m.Cmp.Name, m.PopOp, e, x)
	}
	m.Set[e]--
	if m.Set[e] == 0 {
		delete(m.Set, e)
	}
	m.N--
	c.Count("heap:pop", 1)
	m.Check()
	return e, true
}

func (m *HeapMon) DoPeek() {
	c := m.c
	c.Begin(m.Name, "Peek")
	e, ok := m.Peek()
	if m.N == 0 {
		if ok || e != (E{}) {
			c.Fail("peek", "empty", "%s.Peek() on empty = (%v,%v), want (zero,false)", m.Name, e, ok)
		}
		return
	}
	if !ok || m.Set[e] == 0 {
		c.Fail("peek", "not-a-member", "%s.Peek() = (%v,%v), not a contained element", m.Name, e, ok)
	}
	if x, min := m.minimal(e); !min {
		c.Fail("peek", "not-minimal", "%s(%s).Peek() = %v although contained element %v precedes it", m.Name, m.Cmp.Name, e, x)
	}
	c.Count("heap:peek", 1)
}

func (m *HeapMon) DoClear() {
	m.c.Begin(m.Name, "Clear")
	m.C.Clear()
	m.Set = map[E]int{}
	m.N = 0
	m.Check()
}

// DoFromJSON loads an array in arbitrary order; after a successful load the
// multiset is what the array denotes.
func (m *HeapMon) DoFromJSON(vs []E, viaUnmarshal bool) {
	c := m.c
	data, _ := json.Marshal(vs)
	var err error
	if viaUnmarshal {
		c.Begin(m.Name, "UnmarshalJSON", string(data))
		err = json.Unmarshal(data, m.JSON)
	} else {
		c.Begin(m.Name, "FromJSON", string(data))
		err = m.JSON.FromJSON(data)
	}
	if err != nil {
		c.Fail("fromjson", "error", "%s.FromJSON(%s) returned %v for a well-formed array", m.Name, data, err)
	}
	m.Set = map[E]int{}
	m.N = 0
	for _, v := range vs {
		m.Set[v]++
		m.N++
	}
	c.Count("heap:fromjson", 1)
	m.Check()
}

// Check: Size, Values() and a full iterator walk are a permutation of the
// multiset whose first element is the Peek element, and Peek is minimal.
func (m *HeapMon) Check() {
	c := m.c
	if !c.Observe() {
		return
	}
	if sz := m.C.Size(); sz != m.N {
		c.Fail("size", "", "%s.Size() = %d, multiset holds %d", m.Name, sz, m.N)
	}
	if e := m.C.Empty(); e != (m.N == 0) {
		c.Fail("empty", "", "%s.Empty() = %v, multiset holds %d", m.Name, e, m.N)
	}
	p, pok := m.Peek()
	if m.N > 0 {
		if !pok || m.Set[p] == 0 {
			c.Fail("peek", "not-a-member", "%s.Peek() = (%v,%v), not a contained element", m.Name, p, pok)
		}
		if x, min := m.minimal(p); !min {
			c.Fail("peek", "not-minimal", "%s(%s).Peek() = %v although contained element %v precedes it", m.Name, m.Cmp.Name, p, x)
		}
	} else if pok {
		c.Fail("peek", "empty", "%s.Peek() reports an element on an empty container", m.Name)
	}
	if m.N > 40 && c.R.Intn(16) != 0 {
		return // Values()/iteration cost grows quadratically with the level width
	}
	if m.N > 700 && c.R.Intn(40) != 0 {
		return
	}
	if m.N > 1500 && c.R.Intn(8) != 0 { // (half a second per Values() at 4000 elements)
		return
	}
	if m.N <= 300 && c.R.Intn(6) == 0 {
		// printing is a read like any other (fmt reaches it through Stringer)
		if s, ok := m.C.(interface{ String() string }); ok {
			c.Begin(m.Name, "String")
			_ = s.String()
			if sz := m.C.Size(); sz != m.N {
				c.Fail("size", "after-String", "%s.Size() = %d after String(), multiset holds %d", m.Name, sz, m.N)
			}
		}
	}
	vs := m.C.Values()
	m.checkPerm("values", vs, p)
	var walk []E
	it := m.Iter()
	for it.Next() {
		if it.Index() != len(walk) {
			c.Fail("iteration", "index", "%s iterator Index() = %d at step %d", m.Name, it.Index(), len(walk))
		}
		walk = append(walk, it.Value())
		if len(walk) > m.N+1 {
			break
		}
	}
	m.checkPerm("iteration", walk, p)
	ruin(vs)
	c.Count("heap:values+iteration", 1)
	h := core.HashString(m.Cmp.Name)
	for _, v := range vs {
		h = core.Mix(h, uint64(v.P)) // heap layout by priority
	}
	c.State(h)
}

func (m *HeapMon) checkPerm(what string, vs []E, peek E) {
	c := m.c
	if len(vs) != m.N {
		c.Fail(what, "length", "%s %s has %d elements, multiset holds %d", m.Name, what, len(vs), m.N)
	}
	seen := make(map[E]int, len(vs))
	for _, v := range vs {
		seen[v]++
		if seen[v] > m.Set[v] {
			c.Fail(what, "not-a-permutation", "%s %s lists %v more often than it is contained (%d): %s", m.Name, what, v, m.Set[v], short(vs))
		}
	}
	if len(vs) > 0 && vs[0] != peek {
		c.Fail(what, "first-is-not-peek", "%s %s starts with %v but Peek() = %v", m.Name, what, vs[0], peek)
	}
}

var bulkCounts = []int{0, 2, 3, 4, 7, 8, 9, 15, 16, 17}

// Level boundaries. The array behind a heap gains or loses a tree level at
// sizes 2^k, and around them the last parent has no child, one child or two:
// the places where sift-down variants (bottom-up, hole-based, with sentinels)
// differ from the textbook one. The sweep visits every boundary up to 4096
// from both sides with four value patterns: build to 2^k+delta, pop a few
// times, then ONLY single pushes and pops (a bulk push re-heapifies and would
// repair a misplaced element), then drain under the monitor.
const heapBoundaryCases = 12 * 4 * 4 * 2

func runHeapBoundary(c *core.Ctx, j int) {
	r := c.R
	queue := j%2 == 1
	j /= 2
	k := 1 + j%12
	pattern := (j / 12) % 4
	delta := []int{-1, 0, 1, 2}[(j/48)%4]
	cm := eCmps[[]int{0, 1, 3, 5}[r.Intn(4)]]
	var m *HeapMon
	if queue {
		m = newPQMon(c, cm)
	} else {
		m = newHeapMon(c, cm)
	}
	c.SetGapMax(40)
	seq := 1 << 20
	next := func(dir int) E {
		switch pattern {
		case 0: // ascending / continuing in direction dir
			seq += dir * (1 + r.Intn(3))
			return m.fresh(seq)
		case 1:
			seq -= dir * (1 + r.Intn(3))
			return m.fresh(seq)
		case 2:
			return m.fresh(r.Intn(1 << 30))
		default:
			return m.fresh(r.Intn(4)) // ties
		}
	}
	size := 1<<k + delta
	for m.N < size {
		m.DoPush([]E{next(1)})
	}
	for round, rounds := 0, r.Range(1, 4); round < rounds; round++ {
		pops := r.Range(1, 3)
		if round == 0 && r.Bool() {
			pops = 1 // exactly one: a second pop would re-sift (and repair) the last slot
		}
		for p := pops; p > 0; p-- {
			m.DoPop()
		}
		for p := r.Range(1, 4); p > 0; p-- {
			m.DoPush([]E{next(1)})
		}
	}
	// keep the heap at this size while the values pushed so far are drained
	for p := r.Range(0, size+8); p > 0; p-- {
		m.DoPush([]E{next(1)})
		if r.Intn(3) == 0 {
			m.DoPop()
		}
	}
	c.ObserveNow()
	m.Check()
	for m.N > 0 {
		m.DoPop()
	}
	m.DoPop()
	c.Count("heap:boundary-cases", 1)
	c.Count("heap:drained", 1)
	c.Nontrivial()
}

// Every arrangement of a small array is loaded with FromJSON and drained: a
// loader that decides from the document whether it still has to build the heap
// (already ordered? sorted? short?) is wrong on a handful of arrangements out
// of tens of thousands, which random documents practically never hit.
const heapPermCases = 8

func runHeapPerms(c *core.Ctx, j int) {
	queue := j%2 == 1
	var base []int
	switch j / 2 {
	case 0:
		base = nil // all arrangements of 0..n-1 for every n <= 7
	case 1:
		base = []int{0, 1, 2, 3, 4, 5, 6, 7}
	default:
		base = []int{0, 0, 1, 1, 2, 2, 3, 3, 4} // ties
	}
	natural := func(a, b int) int { return cmp.Compare(a, b) }
	name := "BinaryHeap"
	if queue {
		name = "PriorityQueue"
	}
	count := 0
	try := func(arr []int) {
		count++
		data, _ := json.Marshal(arr)
		var js jsonAPI
		var pop func() (int, bool)
		var push func(int)
		if queue {
			q := priorityqueue.NewWith[int](natural)
			js, pop, push = q, q.Dequeue, q.Enqueue
		} else {
			h := binaryheap.NewWith[int](natural)
			js, pop, push = h, h.Pop, func(v int) { h.Push(v) }
		}
		if count%64 == 1 {
			c.Begin(name, "FromJSON", string(data))
		}
		var err error
		switch count % 4 {
		case 1:
			err = js.UnmarshalJSON(data) // (the hooks encoding/json calls are entry points of their own)
		case 2:
			err = json.Unmarshal(data, js)
		default:
			err = js.FromJSON(data)
		}
		if err != nil {
			c.Begin(name, "FromJSON", string(data))
			c.Fail("fromjson", "error", "%s.FromJSON/UnmarshalJSON(%s) returned %v", name, data, err)
		}
		want := append([]int(nil), arr...)
		if count%3 == 0 { // a single push after the load must find a sound heap too
			push(-1)
			want = append(want, -1)
		}
		sort.Ints(want)
		for i, w := range want {
			v, ok := pop()
			if !ok || v != w {
				c.Begin(name, "FromJSON+drain", string(data))
				c.Fail("drain", "after-fromjson", "%s loaded from %s: pop #%d = (%d,%v), the contents in order are %v", name, data, i, v, ok, want)
			}
		}
		if _, ok := pop(); ok {
			c.Begin(name, "FromJSON+drain", string(data))
			c.Fail("drain", "extra", "%s loaded from %s yields more elements than the document has", name, data)
		}
	}
	var permute func(arr []int, k int)
	permute = func(arr []int, k int) {
		if k == len(arr) {
			try(arr)
			return
		}
		seen := map[int]bool{}
		for i := k; i < len(arr); i++ {
			if seen[arr[i]] {
				continue // arrangements of a multiset: each once
			}
			seen[arr[i]] = true
			arr[k], arr[i] = arr[i], arr[k]
			permute(arr, k+1)
			arr[k], arr[i] = arr[i], arr[k]
		}
	}
	if j/2 == 3 {
		// arrays ordered along a WRONG tree: every element is preceded by its
		// "parent" under an off-by-one reading of the index arithmetic (1-based
		// parents on a 0-based array, ternary parents, a sorted chain). They look
		// ordered to a shortcut that asks "is this a heap already?" with the wrong
		// formula, and are not heaps.
		parents := []func(i int) int{
			func(i int) int { return i >> 1 },
			func(i int) int { return (i - 1) >> 1 }, // the right one: valid heaps, as a control
			func(i int) int { return (i - 1) / 3 },
			func(i int) int { return (i - 2) >> 1 },
			func(i int) int { return i - 1 },
		}
		for _, par := range parents {
			for n := 7; n <= 33; n++ {
				for rep := 0; rep < 40; rep++ {
					// assign 0..n-1 along a random linear extension of that tree
					arr := make([]int, n)
					done := make([]bool, n)
					var ready []int
					ready = append(ready, 0)
					if par(1) < 0 { // (i-2)>>1 has two roots
						ready = append(ready, 1)
					}
					for v := 0; v < n && len(ready) > 0; v++ {
						k := c.R.Intn(len(ready))
						i := ready[k]
						ready = append(ready[:k], ready[k+1:]...)
						arr[i], done[i] = v, true
						for ch := i + 1; ch < n; ch++ {
							if p := par(ch); p == i && !done[ch] {
								ready = append(ready, ch)
							}
						}
					}
					try(arr)
				}
			}
		}
		c.Count("heap:wrong-tree-ordered-arrays", count)
	} else if base == nil {
		for n := 0; n <= 7; n++ {
			arr := make([]int, n)
			for i := range arr {
				arr[i] = i
			}
			permute(arr, 0)
		}
	} else {
		permute(append([]int(nil), base...), 0)
	}
	c.Count("heap:fromjson-arrangements", count)
	c.Count("heap:arrangement-cases", 1)
	c.Nontrivial()
}

// The same sweep for k = 13..15 (up to 32 770 elements) with a lighter oracle:
// int elements, the drain compared with the sorted contents (a per-pop scan of
// the model would be quadratic here).
const heapBigBoundaryCases = 3 * 4 * 3 * 2

func runHeapBoundaryBig(c *core.Ctx, j int) {
	r := c.R
	queue := j%2 == 1
	j /= 2
	k := 13 + j%3
	delta := []int{-1, 0, 1, 2}[(j/3)%4]
	pattern := (j / 12) % 3
	natural := func(a, b int) int { return cmp.Compare(a, b) }
	var push func(int)
	var pop func() (int, bool)
	name := "BinaryHeap"
	if queue {
		q := priorityqueue.NewWith[int](natural)
		push, pop, name = q.Enqueue, q.Dequeue, "PriorityQueue"
	} else {
		h := binaryheap.NewWith[int](natural)
		push, pop = func(v int) { h.Push(v) }, h.Pop
	}
	seq := 1 << 24
	next := func() int {
		switch pattern {
		case 0:
			seq += 1 + r.Intn(3)
			return seq
		case 1:
			seq -= 1 + r.Intn(3)
			return seq
		}
		return r.Intn(1 << 30)
	}
	size := 1<<k + delta
	c.Begin(name, "single pushes up to", size, "then single pops and pushes, then a drain")
	var model []int
	for len(model) < size {
		v := next()
		push(v)
		model = append(model, v)
	}
	sort.Ints(model)
	takeMin := func(step string) {
		v, ok := pop()
		if !ok || v != model[0] {
			c.Fail("pop", "not-minimal", "%s with %d elements (%s): Pop() = (%d,%v), the minimum is %d", name, len(model), step, v, ok, model[0])
		}
		model = model[1:]
	}
	for round, rounds := 0, r.Range(1, 4); round < rounds; round++ {
		pops := r.Range(1, 3)
		if round == 0 {
			pops = 1 // exactly one: a second pop would re-sift (and repair) the last slot
		}
		for p := pops; p > 0; p-- {
			takeMin("at the level boundary")
		}
		for p := r.Range(1, 4); p > 0; p-- {
			v := next()
			push(v)
			i := sort.SearchInts(model, v)
			model = append(model, 0)
			copy(model[i+1:], model[i:])
			model[i] = v
		}
	}
	// as many single pushes again, all beyond the current maximum (no search needed)
	top := model[len(model)-1]
	for p := 0; p < size; p++ {
		top += 1 + r.Intn(3)
		push(top)
		model = append(model, top)
	}
	for len(model) > 0 {
		takeMin("draining")
	}
	if _, ok := pop(); ok {
		c.Fail("drain", "extra", "%s yields an element after all contained ones were drained", name)
	}
	c.Count("heap:big-boundary-cases", 1)
	c.Nontrivial()
}

func runC06(c *core.Ctx) {
	r := c.R
	if j := c.Index - heapBoundaryCases - heapPermCases; j >= 0 && j < heapBigBoundaryCases {
		runHeapBoundaryBig(c, j)
		return
	}
	if c.Index < heapBoundaryCases {
		runHeapBoundary(c, c.Index)
		return
	}
	if j := c.Index - heapBoundaryCases; j < heapPermCases {
		runHeapPerms(c, j)
		return
	}
	c.SetGaps((c.Index/2)%2 == 1)
	if c.Index%5 == 3 {
		runC06Types(c, c.Index/5)
		return
	}
	cm := eCmps[r.Intn(len(eCmps))]
	var m *HeapMon
	if c.Index%2 == 0 {
		m = newHeapMon(c, cm)
	} else {
		m = newPQMon(c, cm)
	}
	pr := r.Range(1, 12) // priority alphabet size: small => many ties
	if r.Chance(1, 5) {
		pr = 1000
	}
	gen := func(k int) []E {
		vs := make([]E, k)
		for i := range vs {
			vs[i] = m.fresh(r.Intn(pr))
		}
		return vs
	}
	steps := r.Range(20, 250)
	if c.Index%40 == 7 {
		steps = 2000
	}
	if c.Index%131 == 9 && !c.Concurrent { // (131 is odd: both BinaryHeap and PriorityQueue get big cases)
		// hundreds to thousands of elements, bulk pushes that cross level
		// boundaries (255/256, 511/512, 1023/1024), priorities that keep
		// producing new global minima (descending), maxima (ascending) or ties
		mode := r.Intn(3)
		seq := 1 << 30
		genP := func(k int) []E {
			vs := gen(k)
			for i := range vs {
				switch mode {
				case 0:
					seq -= 1 + r.Intn(3)
					vs[i].P = seq
				case 1:
					seq += 1 + r.Intn(3)
					vs[i].P = seq
				}
			}
			return vs
		}
		target := []int{300, 520, 1030, 1100, 2100, 4200}[r.Intn(6)]
		for m.N < target {
			m.DoPush(genP([]int{1, 2, 3, 17, 64, 255, 256, 257}[r.Intn(8)]))
			if r.Intn(3) == 0 {
				m.DoPop()
			}
		}
		// hold the size around the target with single pushes and pops in runs of
		// random length (sift paths that end at the last parent, at a lone left
		// child, at either end of the bottom level; no bulk push in between that
		// would re-heapify and repair a misplaced element)
		for k, hold := 0, r.Range(300, 900); k < hold; {
			for run := r.Range(1, 6); run > 0; run-- {
				m.DoPop()
				k++
			}
			for m.N < target+r.Range(-3, 3) {
				m.DoPush(genP(1))
				k++
			}
		}
		c.Count("heap:big-hold-phases", 1)
		for k := 0; k < target/3; k++ {
			m.DoPop()
			if r.Intn(4) == 0 {
				m.DoPush(genP(r.Range(2, 9)))
			}
		}
		c.Count("heap:big-cases", 1)
		steps = 300
	}
	for s := 0; s < steps; s++ {
		switch r.Pick(30, 12, 30, 10, 1, 4) {
		case 0:
			m.DoPush(gen(1))
		case 1:
			m.DoPush(gen(bulkCounts[r.Intn(len(bulkCounts))]))
		case 2:
			m.DoPop()
		case 3:
			m.DoPeek()
		case 4:
			m.DoClear()
		default:
			k := r.Range(0, 20)
			vs := gen(k)
			switch r.Intn(3) {
			case 0: // ascending by P: already a valid heap for min-by-P
				for i := range vs {
					vs[i].P = i
				}
			case 1: // descending
				for i := range vs {
					vs[i].P = k - i
				}
			}
			m.DoFromJSON(vs, r.Bool())
		}
	}
	c.ObserveNow()
	m.Check()
	// drain: non-decreasing and exhausts the multiset
	var prev E
	first := true
	for m.N > 0 {
		e, ok := m.DoPop()
		if !ok {
			break
		}
		if !first && m.Cmp.F(prev, e) > 0 {
			c.Fail("drain", "decreasing", "%s(%s) drain yields %v after %v", m.Name, m.Cmp.Name, e, prev)
		}
		prev, first = e, false
	}
	m.DoPop()
	c.Count("heap:drained", 1)
	c.Nontrivial()
}

func init() {
	core.Register(&core.Prop{
		ID:      "C06",
		Title:   "Heap and priority queue always yield a minimum and never lose elements",
		Cases:   func(tier string) int { return tierN(tier, 16000, 400000) },
		Run:     runC06,
		ParSkip: func(string) int { return heapBoundaryCases + heapPermCases + heapBigBoundaryCases + 8 },
		Rule: "the first 384 cases sweep the level boundaries: heaps and queues built to 2^k-1, 2^k, 2^k+1, 2^k+2 elements for every k up to 12 with ascending, descending, random and tied values, popped a few times and then driven by single pushes and pops only, then drained; the next 6 load EVERY arrangement of 0..n-1 for n <= 8 and of a 9-element multiset with ties through FromJSON and drain it. The others: random interleavings of Push(1 value), bulk Push(k values, k in {0,2,3,4,7,8,9,15,16,17}), Pop/Dequeue, Peek, Clear and FromJSON/json.Unmarshal of arrays in arbitrary, ascending or descending order on BinaryHeap and PriorityQueue, " +
			"elements {P, unique ID} under five comparators (min, max, all-equal, total, coarsened => ties between distinguishable elements); after every call Size, Peek minimality, Values() and a full iterator walk are compared with a multiset; every case ends with a full drain. " +
			"One case in 131 is big: 300 to 4200 elements built with bulk pushes across level boundaries, then held at that size by runs of single Pops and Pushes. One case in five runs the same multiset monitor over other element types: interface values holding slices (not comparable with ==), float64 incl. NaN, the infinities and both zeros (identified by their bits), pointers incl. nil, int and string on heaps built by New (built-in order), and structs with an omit-when-empty JSON field loaded by FromJSON from documents with omitted fields and null entries. " +
			"Every case is non-trivial (>= 20 calls and a drain); distinct = distinct hash of the call list.",
		Floors: func(tier string, m map[string]int64) []string {
			f := &floorCheck{m: m}
			f.atLeast("heap:pop", 50000)
			f.atLeast("heap:pop-on-empty", 1000)
			f.atLeast("heap:fromjson", 3000)
			f.atLeast("heap:push-k=>1", 5000)
			f.atLeast("heap:push-k=0", 500)
			f.atLeast("heap:values+iteration", 100000)
			f.atLeast("call:BinaryHeap.Clear", 100)
			f.atLeast("call:PriorityQueue.Clear", 100)
			f.atLeast("heap:big-hold-phases", 50)
			f.atLeast("heap:boundary-cases", heapBoundaryCases)
			f.atLeast("heap:big-boundary-cases", heapBigBoundaryCases)
			f.atLeast("heap:arrangement-cases", heapPermCases)
			f.atLeast("heap:fromjson-arrangements", 100000)
			f.atLeast("heap:wrong-tree-ordered-arrays", 10000)
			for _, n := range heapTypeNames {
				f.atLeast("heaptypes:"+n, 200)
			}
			f.atLeast("heaptypes:fromjson", 2000)
			return f.missing
		},
		Files: []string{"trees/binaryheap/binaryheap.go", "trees/binaryheap/iterator.go", "trees/binaryheap/serialization.go", "queues/priorityqueue/priorityqueue.go", "queues/priorityqueue/serialization.go"},
		Assumptions: []string{
			"comparators are weak orders (ties allowed); PriorityQueue has no bulk Enqueue, so bulk pushes reach it as repeated Enqueue",
			"a clean run says the property held on the executed histories only",
		},
	})
}
