#!/bin/bash
# selftest/seeded_all.sh [tier] [jobs] — re-confirm every filed seeded change against the current checks, oldest confirmation
# first; appends one JSON line per change to selftest/seeded_results_<tier>.jsonl (tools/gen_catch_table.py takes the latest
# line per change, and the confirmation recorded in meta.json for changes not re-run).
cd "$(dirname "$0")/.."
TIER="${1:-quick}"; JOBS="${2:-4}"
ls -dtr seeded/C*/ | xargs -P "$JOBS" -I{} bash -c 'd={}; p=$(basename $d | cut -d- -f1); x=$(python3 -c "import json,sys; print(\" \".join(json.load(open(sys.argv[1]+\"meta.json\")).get(\"extra_checks\",[])))" $d); ./selftest/seeded.sh $d x $p '"$TIER"' $x 2>/dev/null | grep -a "^{" | sed "s#\"change\":\"[^\"]*\"#\"change\":\"$(basename $d)\"#"' >> selftest/seeded_results_$TIER.jsonl
