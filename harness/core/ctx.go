package core

import (
	"fmt"
	"io"
	"runtime/debug"
	"sort"
	"strings"
)

// Violation is one observed contradiction of a property statement.
type Violation struct {
	Property string   `json:"property"`
	Sig      string   `json:"sig"` // property|object|operation|kind|discriminator
	Message  string   `json:"message"`
	Seed     uint64   `json:"seed"`
	Tier     string   `json:"tier"`
	Index    int      `json:"case_index"`
	OpNumber int      `json:"op_number"`
	Trace    []string `json:"trace"` // last calls made at the API boundary, oldest first
	Count    int      `json:"count"` // how many cases of this run produced the same signature
	Stack    string   `json:"stack,omitempty"`
	// Par: observed in the concurrent-private-instances phase (race build,
	// ParG goroutines in each of ParW processes; ParK = the process, -1 = any)
	Par  bool `json:"concurrent_instances,omitempty"`
	ParK int  `json:"concurrent_instances_process,omitempty"`
	ParW int  `json:"concurrent_instances_processes,omitempty"`
	ParG int  `json:"concurrent_instances_goroutines,omitempty"`
}

type opRec struct {
	obj, op string
	args    []any
}

func (o opRec) String() string {
	var b strings.Builder
	b.WriteString(o.obj)
	b.WriteByte('.')
	b.WriteString(o.op)
	b.WriteByte('(')
	for i, a := range o.args {
		if i > 0 {
			b.WriteString(", ")
		}
		fmt.Fprintf(&b, "%#v", a)
	}
	b.WriteByte(')')
	return b.String()
}

type callKey struct{ obj, op string }

const traceRing = 256

// Stats are the per-process measurements merged by the parent into the
// evidence file.
type Stats struct {
	Calls     map[callKey]int64
	Counters  map[string]int64
	States    map[uint64]struct{}
	CaseHash  map[uint64]struct{} // distinct non-trivial cases
	Cases     int
	StatesCap bool
}

func NewStats() *Stats {
	return &Stats{Calls: map[callKey]int64{}, Counters: map[string]int64{}, States: map[uint64]struct{}{}, CaseHash: map[uint64]struct{}{}}
}

const statesPerChildCap = 400000

// Ctx is the context of one case: its PRNG stream, the recorded call trace
// and the verdicts of the monitors attached to it.
type Ctx struct {
	Prop  string
	Seed  uint64
	Tier  string
	Index int
	R     *R
	St    *Stats

	ring     [traceRing]opRec
	nops     int
	cur      opRec
	caseHash uint64
	nontriv  bool
	Verbose  io.Writer
	Viol     *Violation
	// Concurrent: the case runs in the concurrent-private-instances phase
	// (race build, several cases at once); case functions leave their
	// longest-running modes to the sequential run.
	Concurrent bool
	// Only, if set, restricts which violation kinds this case reports: a
	// workload written for another property may be run under this property's
	// monitors only (C17 deep cases); a divergence of the other property's
	// model then ends the case quietly instead of being reported under the
	// wrong property.
	Only func(kind string) bool
	// observation gaps (see Observe)
	gaps    bool
	gapLeft int
	gapMax  int
	// OnCall, if set, runs at every Begin BEFORE the new call is recorded, so
	// a Fail raised inside it is attributed to the call that just returned
	// (C17's per-call output monitor on workloads written for other properties).
	OnCall func()
	// a case of another property borrowed by this one (see Borrow)
	Alias    string
	borrowed bool
	outerIdx int
}

// Borrow runs one case (its index) of another property's workload inside the
// current case: the workload sees that property's id (IsProp) and its own
// case index, while violations keep being recorded under the current property
// and the current case index, so that they replay from there.
func (c *Ctx) Borrow(prop string, index int, f func(*Ctx)) {
	c.Alias, c.borrowed, c.outerIdx = prop, true, c.Index
	c.Index = index
	defer func() {
		c.Index, c.Alias, c.borrowed = c.outerIdx, "", false
	}()
	f(c)
}

// IsProp: the case belongs to, or is borrowed from, the given property.
func (c *Ctx) IsProp(id string) bool { return c.Prop == id || c.Alias == id }

type abortCase struct{}

// Begin records a call at the API boundary before it is made.
func (c *Ctx) Begin(obj, op string, args ...any) {
	if c.OnCall != nil {
		c.OnCall()
	}
	c.cur = opRec{obj, op, args}
	c.ring[c.nops%traceRing] = c.cur
	c.nops++
	c.caseHash = Mix(c.caseHash, HashString(obj), HashString(op), hashArgs(args))
	c.St.Calls[callKey{obj, op}]++
	if c.Verbose != nil {
		fmt.Fprintf(c.Verbose, "%6d %s\n", c.nops, c.cur.String())
	}
}

// Note adds an annotation to the trace without counting a call.
func (c *Ctx) Note(format string, a ...any) {
	c.cur = opRec{"note", fmt.Sprintf(format, a...), nil}
	c.ring[c.nops%traceRing] = c.cur
	c.nops++
	if c.Verbose != nil {
		fmt.Fprintf(c.Verbose, "%6d # %s\n", c.nops, c.cur.op)
	}
}

func (c *Ctx) NOps() int { return c.nops }

// Count adds to a named counter (observations made by a monitor).
func (c *Ctx) Count(name string, n int) { c.St.Counters[name] += int64(n) }

// State records a fingerprint of an abstract state seen at a quiescent point.
func (c *Ctx) State(h uint64) {
	if len(c.St.States) >= statesPerChildCap {
		c.St.StatesCap = true
		return
	}
	c.St.States[h] = struct{}{}
}

// SetGaps switches the case to gapped observation: the monitors then look at
// the container only after every 1st..5th mutating call instead of after each
// one. A container that repairs or compacts itself whenever it is observed
// (lazy deletion, memoised views) behaves perfectly under a monitor that
// observes after every call; the gaps let several mutating calls run back to
// back, as ordinary callers do, before the next observation.
func (c *Ctx) SetGaps(on bool) { c.gaps = on; c.gapLeft = 0; c.gapMax = 5 }

// SetGapMax widens the gaps (up to max-1 mutating calls between observations)
// and switches gapped observation on.
func (c *Ctx) SetGapMax(max int) { c.gaps = true; c.gapMax = max }

// Observe reports whether the monitor should run its observers now. The
// models are updated on every call regardless; return values of the calls
// themselves are always checked.
func (c *Ctx) Observe() bool {
	if !c.gaps {
		return true
	}
	if c.gapLeft > 0 {
		c.gapLeft--
		c.St.Counters["obs:skipped-by-observation-gap"]++
		return false
	}
	c.gapLeft = c.R.Intn(c.gapMax)
	return true
}

// InGap reports whether observers are currently being skipped.
func (c *Ctx) InGap() bool { return c.gaps && c.gapLeft > 0 }

// ObserveNow ends the current gap (used for the final comparison of a case).
func (c *Ctx) ObserveNow() { c.gapLeft = 0 }

// Nontrivial marks the case as satisfying the property's non-triviality rule.
func (c *Ctx) Nontrivial() { c.nontriv = true }

func (c *Ctx) traceStrings() []string {
	n := c.nops
	start := 0
	if n > traceRing {
		start = n - traceRing
	}
	out := make([]string, 0, n-start)
	for i := start; i < n; i++ {
		out = append(out, c.ring[i%traceRing].String())
	}
	return out
}

// Fail records a violation observed at the current call and ends the case
// (later comparisons against a diverged model would only cascade).
func (c *Ctx) Fail(kind, disc, format string, a ...any) {
	if c.Only != nil && !c.Only(kind) {
		c.St.Counters["case-ended-by-another-property's-oracle(not reported here)"]++
		panic(abortCase{})
	}
	c.fail(c.cur, kind, disc, fmt.Sprintf(format, a...), "")
	panic(abortCase{})
}

func (c *Ctx) fail(at opRec, kind, disc, msg, stack string) {
	if c.Viol != nil {
		return
	}
	sig := strings.Join([]string{c.Prop, at.obj, at.op, kind, disc}, "|")
	idx := c.Index
	if c.borrowed {
		idx = c.outerIdx
	}
	c.Viol = &Violation{Property: c.Prop, Sig: sig, Message: msg, Seed: c.Seed, Tier: c.Tier, Index: idx,
		OpNumber: c.nops, Trace: c.traceStrings(), Count: 1, Stack: stack}
}

// RunCase runs f under the panic monitor. A panic raised by the library (or
// by a monitor bug) during the case is a violation attributed to the call in
// progress.
func (c *Ctx) RunCase(f func(*Ctx)) {
	defer func() {
		if r := recover(); r != nil {
			if _, ok := r.(abortCase); ok {
				return
			}
			msg := fmt.Sprintf("panic: %v", r)
			stack := string(debug.Stack())
			kind := "panic"
			if !strings.Contains(stack, "github.com/emirpasic/gods/v2/") {
				// no library frame on the stack: the panic was raised in monitor
				// code (while using a library result, or by a monitor bug) - still
				// reported, but labelled so that triage starts in the right place
				kind = "panic-outside-library-frames"
			}
			if c.Only != nil && kind != "panic" {
				c.St.Counters["case-ended-by-another-property's-oracle(not reported here)"]++
				return
			}
			c.fail(c.cur, kind, panicClass(msg), msg, stack)
		}
	}()
	f(c)
}

func panicClass(msg string) string {
	switch {
	case strings.Contains(msg, "nil pointer"):
		return "nil-deref"
	case strings.Contains(msg, "index out of range"), strings.Contains(msg, "slice bounds"):
		return "bounds"
	case strings.Contains(msg, "nil map"):
		return "nil-map"
	case strings.Contains(msg, "comparator step budget"):
		return "step-budget"
	}
	if len(msg) > 60 {
		msg = msg[:60]
	}
	return msg
}

func hashArgs(args []any) uint64 {
	h := uint64(len(args))
	for _, a := range args {
		switch v := a.(type) {
		case int:
			h = Mix(h, uint64(v))
		case string:
			h = Mix(h, HashString(v))
		case bool:
			if v {
				h = Mix(h, 1)
			} else {
				h = Mix(h, 2)
			}
		case []int:
			for _, x := range v {
				h = Mix(h, uint64(x))
			}
			h = Mix(h, uint64(len(v)))
		case []string:
			for _, x := range v {
				h = Mix(h, HashString(x))
			}
			h = Mix(h, uint64(len(v)))
		default:
			h = Mix(h, HashString(fmt.Sprintf("%v", v)))
		}
	}
	return h
}

// SortedKeys is a helper for deterministic output of counter maps.
func SortedKeys[V any](m map[string]V) []string {
	ks := make([]string, 0, len(m))
	for k := range m {
		ks = append(ks, k)
	}
	sort.Strings(ks)
	return ks
}
