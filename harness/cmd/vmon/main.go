// vmon is the single binary behind ./check: parent mode plans a run and
// starts child processes, child mode executes monitored cases against the
// real library, replay mode re-runs one case verbosely.
package main

import (
	"flag"
	"fmt"
	"os"
	"time"

	"godsverif/core"
	_ "godsverif/props"
)

func main() {
	if len(os.Args) < 2 {
		fmt.Println("usage: vmon run|child|replay|list ...")
		os.Exit(2)
	}
	switch os.Args[1] {
	case "list":
		for _, id := range core.IDs() {
			fmt.Println(id, core.Lookup(id).Title)
		}
	case "run":
		fs := flag.NewFlagSet("run", flag.ExitOnError)
		prop := fs.String("prop", "", "property id")
		tier := fs.String("tier", "quick", "quick|thorough")
		verif := fs.String("verif", "/verif", "verif directory")
		out := fs.String("out", "", "output directory for .work, evidence, replays (default: verif directory)")
		fs.Parse(os.Args[2:])
		if *out == "" {
			*out = *verif
		}
		p := core.Lookup(*prop)
		if p == nil {
			fmt.Println("unknown property", *prop)
			os.Exit(2)
		}
		os.Exit(core.ParentMain(p, *tier, *verif, *out))
	case "child":
		fs := flag.NewFlagSet("child", flag.ExitOnError)
		prop := fs.String("prop", "", "")
		tier := fs.String("tier", "quick", "")
		seed := fs.Uint64("seed", 1, "")
		k := fs.Int("k", 0, "")
		w := fs.Int("w", 1, "")
		n := fs.Int("n", 0, "")
		dir := fs.String("dir", "", "")
		only := fs.Int("only", -1, "")
		verbose := fs.String("verbose", "", "")
		budget := fs.Int64("budget", 0, "per-case wall-clock budget in ms (0 = none)")
		fs.Parse(os.Args[2:])
		p := core.Lookup(*prop)
		if p == nil {
			os.Exit(2)
		}
		core.ChildMain(p, *tier, *seed, *k, *w, *n, *dir, *only, *verbose, time.Duration(*budget)*time.Millisecond)
	case "parchild":
		fs := flag.NewFlagSet("parchild", flag.ExitOnError)
		prop := fs.String("prop", "", "")
		tier := fs.String("tier", "quick", "")
		seed := fs.Uint64("seed", 1, "")
		k := fs.Int("k", 0, "")
		w := fs.Int("w", 1, "")
		n := fs.Int("n", 0, "")
		g := fs.Int("g", 4, "")
		dir := fs.String("dir", "", "")
		fs.Parse(os.Args[2:])
		p := core.Lookup(*prop)
		if p == nil {
			os.Exit(2)
		}
		core.ParChildMain(p, *tier, *seed, *k, *w, *n, *g, *dir)
	case "replay":
		fs := flag.NewFlagSet("replay", flag.ExitOnError)
		file := fs.String("file", "", "")
		verif := fs.String("verif", "/verif", "")
		fs.Parse(os.Args[2:])
		os.Exit(core.ReplayMain(*file, *verif))
	default:
		fmt.Println("unknown mode", os.Args[1])
		os.Exit(2)
	}
}
