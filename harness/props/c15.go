package props

import (
	"strings"

	"godsverif/core"
)

// checkAgreement: the observers of the Container interface agree with each
// other in the current state, and String() is a pure observer that begins
// with the container's name.
func checkAgreement(c *core.Ctx, d *Dyn) {
	sz := d.C.Size()
	if sz < 0 {
		c.Fail("agreement", "negative-size", "%s.Size() = %d", d.Kind, sz)
	}
	if e := d.C.Empty(); e != (sz == 0) {
		c.Fail("agreement", "empty-vs-size", "%s: Empty() = %v but Size() = %d", d.Kind, e, sz)
	}
	if vs := d.Values(); len(vs) != sz {
		c.Fail("agreement", "values-vs-size", "%s: len(Values()) = %d but Size() = %d", d.Kind, len(vs), sz)
	}
	if d.Keys != nil {
		if ks := d.Keys(); len(ks) != sz {
			c.Fail("agreement", "keys-vs-size", "%s: len(Keys()) = %d but Size() = %d", d.Kind, len(ks), sz)
		}
	}
	c.Count("obs:agreement", 1)
	if c.R.Intn(4) == 0 {
		before := d.Observe(false)
		c.Begin(d.Kind, "String")
		s := d.C.String()
		if !strings.HasPrefix(s, d.Kind) {
			c.Fail("string", "prefix", "%s.String() = %q does not begin with the container's name", d.Kind, s)
		}
		if diff := before.Diff(d.Observe(false)); diff != "" {
			c.Fail("string", "not-pure", "%s.String() altered the container: %s", d.Kind, diff)
		}
		c.Count("obs:String", 1)
	}
	c.State(core.Mix(core.HashString(d.Kind), uint64(sz)))
}

func runC15(c *core.Ctx) {
	r := c.R
	kind := dynKinds[c.Index%len(dynKinds)]
	d := newDynRandom(c, kind, false)
	checkAgreement(c, d)
	steps := r.Range(5, 80)
	for s := 0; s < steps; s++ {
		d.Mutate(c)
		checkAgreement(c, d)
	}
	// Clear at this (random) point of the history, then run in lockstep with
	// a freshly constructed container of the same configuration.
	wasSize := d.C.Size()
	c.Begin(kind, "Clear")
	d.C.Clear()
	if d.C.Size() != 0 || !d.C.Empty() || len(d.Values()) != 0 {
		c.Fail("clear", "not-empty", "%s.Clear() on %d elements left Size()=%d Empty()=%v len(Values())=%d", kind, wasSize, d.C.Size(), d.C.Empty(), len(d.Values()))
	}
	if wasSize > 0 {
		c.Count("clear:non-empty", 1)
	}
	fresh := d.Fresh()
	compare := func(when string) {
		oc, of := d.Observe(true), fresh.Observe(true)
		if diff := oc.Diff(of); diff != "" {
			c.Fail("clear", "differs-from-fresh", "%s(%s %s) cleared after %d elements vs freshly constructed, %s: %s", kind, d.Elem, d.Config, wasSize, when, diff)
		}
		if d.Walk != nil {
			wc, wf := d.Walk(), fresh.Walk()
			if len(wc) != len(wf) {
				c.Fail("clear", "iteration-differs-from-fresh", "%s cleared vs fresh, %s: iteration yields %d vs %d elements", kind, when, len(wc), len(wf))
			}
			for i := range wc {
				if wc[i] != wf[i] {
					c.Fail("clear", "iteration-differs-from-fresh", "%s cleared vs fresh, %s: iteration differs at %d: %v vs %v", kind, when, i, wc[i], wf[i])
				}
			}
		}
		sc, sf := d.C.String(), fresh.C.String()
		if d.Ordered && sc != sf {
			c.Fail("clear", "string-differs-from-fresh", "%s cleared vs fresh, %s: String() %q vs %q", kind, when, sc, sf)
		}
		c.Count("obs:cleared-vs-fresh", 1)
	}
	compare("right after Clear")
	cont := r.Range(5, 40)
	realR := c.R
	for s := 0; s < cont; s++ {
		seed := realR.U64()
		c.R = core.NewR(seed)
		d.Mutate(c)
		c.R = core.NewR(seed)
		c.Note("same call on the fresh container")
		saved := c.St
		fresh.Mutate(c)
		_ = saved
		c.R = realR
		compare("after the same continuation")
		checkAgreement(c, d)
		if d.Take != nil && realR.Intn(6) == 0 {
			a, aok := d.Take()
			b, bok := fresh.Take()
			if a != b || aok != bok {
				c.Fail("clear", "take-differs-from-fresh", "%s cleared vs fresh: removal returns (%v,%v) vs (%v,%v)", kind, a, aok, b, bok)
			}
		}
	}
	c.Nontrivial()
}

var allContainerFiles = []string{"lists/arraylist/arraylist.go", "lists/singlylinkedlist/singlylinkedlist.go", "lists/doublylinkedlist/doublylinkedlist.go", "sets/hashset/hashset.go", "sets/treeset/treeset.go", "sets/linkedhashset/linkedhashset.go",
	"stacks/arraystack/arraystack.go", "stacks/linkedliststack/linkedliststack.go", "queues/arrayqueue/arrayqueue.go", "queues/linkedlistqueue/linkedlistqueue.go", "queues/circularbuffer/circularbuffer.go", "queues/priorityqueue/priorityqueue.go",
	"maps/hashmap/hashmap.go", "maps/treemap/treemap.go", "maps/linkedhashmap/linkedhashmap.go", "maps/hashbidimap/hashbidimap.go", "maps/treebidimap/treebidimap.go", "trees/redblacktree/redblacktree.go", "trees/avltree/avltree.go", "trees/btree/btree.go", "trees/binaryheap/binaryheap.go"}

func init() {
	core.Register(&core.Prop{
		ID:    "C15",
		Title: "Size, Empty, Values, Keys and Clear agree on every container",
		Cases: func(tier string) int { return tierN(tier, 42000, 840000) },
		Run:   runC15,
		Rule: "one container per case, cycling through all 21 kinds (int or string elements; four key/value type pairs; random comparator, ring capacity, B-tree order); a random history of 5-80 mutating calls with hostile arguments, " +
			"after each of which Empty <=> Size==0, len(Values)==Size>=0, len(Keys)==Size are checked and String() (prefix, purity) on every 4th; then Clear at that point and a continuation of 5-40 calls applied identically to the cleared container " +
			"and to a freshly constructed one of the same configuration, comparing every observer (Size, Empty, Values, Keys, Get of every key, ToJSON, iteration, String, Pop/Dequeue results) after each call. " +
			"Every case is non-trivial (>= 10 mutating calls and a Clear); distinct = distinct hash of the call list.",
		Floors: func(tier string, m map[string]int64) []string {
			f := &floorCheck{m: m}
			f.atLeast("obs:agreement", 200000)
			f.atLeast("obs:String", 30000)
			f.atLeast("obs:cleared-vs-fresh", 50000)
			f.atLeast("clear:non-empty", 4000)
			for _, k := range dynKinds {
				f.atLeast("call:"+k+".Clear", 200)
			}
			return f.missing
		},
		Files: allContainerFiles,
		Assumptions: []string{
			"hash containers are compared as multisets; nil and empty slices are equal; String() of unordered containers is compared only for its prefix",
			"a clean run says the property held on the executed histories only",
		},
	})
}
