package props

import (
	"slices"

	"github.com/emirpasic/gods/v2/containers"
	"github.com/emirpasic/gods/v2/lists/arraylist"
	"github.com/emirpasic/gods/v2/lists/doublylinkedlist"
	"github.com/emirpasic/gods/v2/lists/singlylinkedlist"
	"github.com/emirpasic/gods/v2/maps"
	"github.com/emirpasic/gods/v2/maps/hashbidimap"
	"github.com/emirpasic/gods/v2/maps/linkedhashmap"
	"github.com/emirpasic/gods/v2/maps/treebidimap"
	"github.com/emirpasic/gods/v2/maps/treemap"
	"github.com/emirpasic/gods/v2/queues"
	"github.com/emirpasic/gods/v2/queues/arrayqueue"
	"github.com/emirpasic/gods/v2/queues/circularbuffer"
	"github.com/emirpasic/gods/v2/queues/linkedlistqueue"
	"github.com/emirpasic/gods/v2/queues/priorityqueue"
	"github.com/emirpasic/gods/v2/sets/hashset"
	"github.com/emirpasic/gods/v2/sets/linkedhashset"
	"github.com/emirpasic/gods/v2/sets/treeset"
	"github.com/emirpasic/gods/v2/stacks"
	"github.com/emirpasic/gods/v2/stacks/arraystack"
	"github.com/emirpasic/gods/v2/stacks/linkedliststack"
	"github.com/emirpasic/gods/v2/trees/avltree"
	"github.com/emirpasic/gods/v2/trees/binaryheap"
	"github.com/emirpasic/gods/v2/trees/btree"
	"github.com/emirpasic/gods/v2/trees/redblacktree"
)

// ReadOp is one read-only operation of the catalogue used by C18. Do performs
// it and boxes the answer; Eq compares two answers. Building the catalogue
// does not perform the operations: the sequential answers are taken on a twin
// container, so that the container under test has not been read at all before
// the concurrent phase starts (a read that lazily repairs or memoises on its
// first call would otherwise be healed by the monitor itself). Do and Eq use
// no fmt, no locks, no channels and no atomics, so the monitor adds no
// synchronisation between concurrent readers.
type ReadOp struct {
	Name string
	Do   func() any
	Eq   func(a, b any) bool
}

func rop[A any](name string, f func() A, eq func(a, b A) bool) ReadOp {
	return ReadOp{Name: name, Do: func() any { return f() }, Eq: func(a, b any) bool {
		x, ok1 := a.(A)
		y, ok2 := b.(A)
		return ok1 && ok2 && eq(x, y)
	}}
}

func eqv[A comparable](a, b A) bool { return a == b }
func eqLen(a, b string) bool        { return len(a) == len(b) }

type pr[A comparable] struct {
	V  A
	OK bool
}

type pr3[A, B comparable] struct {
	K  A
	V  B
	OK bool
}

func commonReads[X comparable](cont containers.Container[X], js jsonAPI, ordered bool, d *Dom[X]) []ReadOp {
	seqEq := slices.Equal[[]X]
	strEq := eqv[string]
	if !ordered {
		seqEq = sameMultiset[X]
		strEq = eqLen
	}
	return []ReadOp{
		rop("Size", cont.Size, eqv[int]),
		rop("Empty", cont.Empty, eqv[bool]),
		rop("Values", cont.Values, seqEq),
		rop("String", cont.String, strEq),
		rop("ToJSON", func() string { b, err := js.ToJSON(); return string(b) + errText(err) }, strEq),
		rop("MarshalJSON", func() string { b, err := js.MarshalJSON(); return string(b) + errText(err) }, strEq),
		rop("GetSortedValuesFunc", func() []X { return containers.GetSortedValuesFunc(cont, d.Cmps[0].F) }, slices.Equal[[]X]),
		rop("GetSortedValues", func() []X { return getSortedNatural(cont) }, slices.Equal[[]X]),
	}
}

func errText(err error) string {
	if err != nil {
		return " error: " + err.Error()
	}
	return ""
}

// idxIterReads: iteration with fresh iterators (forward, backward, NextTo).
func idxIterReads[X comparable](mk func() containers.IteratorWithIndex[X]) []ReadOp {
	out := []ReadOp{
		rop("Iterator/forward", func() []idxPair[X] {
			var w []idxPair[X]
			for it := mk(); it.Next(); {
				w = append(w, idxPair[X]{it.Index(), it.Value()})
			}
			return w
		}, slices.Equal[[]idxPair[X]]),
		rop("Iterator/First+NextTo", func() []int {
			var w []int
			it := mk()
			if it.First() {
				w = append(w, it.Index())
			}
			for it.NextTo(func(i int, v X) bool { return i%2 == 0 }) {
				w = append(w, it.Index())
			}
			return w
		}, slices.Equal[[]int]),
	}
	// (whether the iterator is reversible is found out inside the operation:
	// even creating an iterator is a read, and the catalogue is built before
	// the phase in which the container is read for the first time)
	{
		out = append(out, rop("Iterator/backward", func() []idxPair[X] {
			var w []idxPair[X]
			it, ok := mk().(containers.ReverseIteratorWithIndex[X])
			if !ok {
				return nil
			}
			for it.End(); it.Prev(); {
				w = append(w, idxPair[X]{it.Index(), it.Value()})
			}
			if it.Last() {
				w = append(w, idxPair[X]{it.Index(), it.Value()})
			}
			for it.PrevTo(func(i int, v X) bool { return i%3 == 0 }) {
				w = append(w, idxPair[X]{it.Index(), it.Value()})
			}
			return w
		}, slices.Equal[[]idxPair[X]]))
	}
	return out
}

func keyIterReads[K comparable, V comparable](mk func() containers.IteratorWithKey[K, V]) []ReadOp {
	out := []ReadOp{
		rop("Iterator/forward", func() []kvPair[K, V] {
			var w []kvPair[K, V]
			for it := mk(); it.Next(); {
				w = append(w, kvPair[K, V]{it.Key(), it.Value()})
			}
			return w
		}, slices.Equal[[]kvPair[K, V]]),
		rop("Iterator/First+NextTo", func() []K {
			var w []K
			it := mk()
			if it.First() {
				w = append(w, it.Key())
			}
			n := 0
			for it.NextTo(func(k K, v V) bool { n++; return n%2 == 0 }) {
				w = append(w, it.Key())
			}
			return w
		}, slices.Equal[[]K]),
	}
	{
		out = append(out, rop("Iterator/backward", func() []kvPair[K, V] {
			var w []kvPair[K, V]
			it, ok := mk().(containers.ReverseIteratorWithKey[K, V])
			if !ok {
				return nil
			}
			for it.End(); it.Prev(); {
				w = append(w, kvPair[K, V]{it.Key(), it.Value()})
			}
			if it.Last() {
				w = append(w, kvPair[K, V]{it.Key(), it.Value()})
			}
			n := 0
			for it.PrevTo(func(k K, v V) bool { n++; return n%3 == 0 }) {
				w = append(w, kvPair[K, V]{it.Key(), it.Value()})
			}
			return w
		}, slices.Equal[[]kvPair[K, V]]))
	}
	return out
}

// enumIdxReads: Each/Any/All/Find/Select/Map with pure callbacks.
func enumIdxReads[X comparable](e *enumIdx[X], d *Dom[X]) []ReadOp {
	pred := func(i int, v X) bool { return i%2 == 0 || v == d.Alpha[0] }
	return []ReadOp{
		rop("Each", func() []idxPair[X] {
			var w []idxPair[X]
			e.E.Each(func(i int, v X) { w = append(w, idxPair[X]{i, v}) })
			return w
		}, slices.Equal[[]idxPair[X]]),
		rop("Any", func() bool { return e.E.Any(pred) }, eqv[bool]),
		rop("All", func() bool { return e.E.All(pred) }, eqv[bool]),
		rop("Find", func() idxPair[X] { i, v := e.E.Find(pred); return idxPair[X]{i, v} }, eqv[idxPair[X]]),
		rop("Select", func() []X { return e.sel(pred).C.Values() }, slices.Equal[[]X]),
		rop("Map", func() []X { return e.mp(func(i int, v X) X { return d.Alpha[i%len(d.Alpha)] }).C.Values() }, slices.Equal[[]X]),
	}
}

func enumKeyReads[K comparable, V comparable](e *enumKey[K, V], dk *Dom[K], dv *Dom[V]) []ReadOp {
	pred := func(k K, v V) bool { return k == dk.Alpha[0] || v == dv.Alpha[0] || v == dv.Alpha[len(dv.Alpha)-1] }
	return []ReadOp{
		rop("Each", func() []kvPair[K, V] {
			var w []kvPair[K, V]
			e.E.Each(func(k K, v V) { w = append(w, kvPair[K, V]{k, v}) })
			return w
		}, slices.Equal[[]kvPair[K, V]]),
		rop("Any", func() bool { return e.E.Any(pred) }, eqv[bool]),
		rop("All", func() bool { return e.E.All(pred) }, eqv[bool]),
		rop("Find", func() kvPair[K, V] { k, v := e.E.Find(pred); return kvPair[K, V]{k, v} }, eqv[kvPair[K, V]]),
		rop("Select", func() []kvPair[K, V] { return e.sel(pred).walk() }, slices.Equal[[]kvPair[K, V]]),
		rop("Map", func() []kvPair[K, V] {
			return e.mp(func(k K, v V) (K, V) { return k, dv.Alpha[0] }).walk()
		}, slices.Equal[[]kvPair[K, V]]),
	}
}

func listReads[X comparable](l listAPI[X], e *enumIdx[X], d *Dom[X]) []ReadOp {
	n := l.Size()
	out := commonReads[X](l, l.(jsonAPI), true, d)
	for _, i := range []int{-1, 0, n / 2, n - 1, n} {
		i := i
		out = append(out, rop("Get", func() pr[X] { v, ok := l.Get(i); return pr[X]{v, ok} }, eqv[pr[X]]))
	}
	for _, v := range []X{d.Alpha[0], d.Alpha[len(d.Alpha)-1], d.Probe[0]} {
		v := v
		out = append(out, rop("IndexOf", func() int { return l.IndexOf(v) }, eqv[int]))
		out = append(out, rop("Contains", func() bool { return l.Contains(v, d.Alpha[0]) }, eqv[bool]))
	}
	out = append(out, rop("Contains", func() bool { return l.Contains() }, eqv[bool]))
	out = append(out, idxIterReads(e.iter)...)
	out = append(out, enumIdxReads(e, d)...)
	return out
}

func setReads[X comparable](kind string, s interface {
	containers.Container[X]
	Contains(...X) bool
}, js jsonAPI, ordered bool, d *Dom[X], e *enumIdx[X], alg *algSet[X], other *algSet[X]) []ReadOp {
	out := commonReads[X](s, js, ordered, d)
	for _, v := range []X{d.Alpha[0], d.Alpha[len(d.Alpha)-1], d.Probe[0]} {
		v := v
		out = append(out, rop("Contains", func() bool { return s.Contains(v) }, eqv[bool]))
		out = append(out, rop("Contains", func() bool { return s.Contains(v, d.Alpha[0]) }, eqv[bool]))
	}
	out = append(out, rop("Contains", func() bool { return s.Contains() }, eqv[bool]))
	if e != nil {
		out = append(out, idxIterReads(e.iter)...)
		out = append(out, enumIdxReads(e, d)...)
	}
	seqEq := slices.Equal[[]X]
	if kind != "TreeSet" { // the order of a hash-based algebra result is not defined
		seqEq = sameMultiset[X]
	}
	out = append(out,
		rop("Intersection/self", func() []X { return alg.inter(alg).S.Values() }, seqEq),
		rop("Union/self", func() []X { return alg.union(alg).S.Values() }, seqEq),
		rop("Difference/self", func() []X { return alg.diff(alg).S.Values() }, seqEq),
		rop("Intersection/other", func() []X { return alg.inter(other).S.Values() }, seqEq),
		rop("Union/other", func() []X { return alg.union(other).S.Values() }, seqEq),
		rop("Difference/other", func() []X { return alg.diff(other).S.Values() }, seqEq),
		rop("Intersection/other-as-receiver", func() []X { return other.inter(alg).S.Values() }, seqEq),
		rop("Difference/other-as-receiver", func() []X { return other.diff(alg).S.Values() }, seqEq),
	)
	return out
}

func stackReads[X comparable](s stacks.Stack[X], d *Dom[X], walk func() []any) []ReadOp {
	out := commonReads[X](s, s.(jsonAPI), true, d)
	out = append(out, rop("Peek", func() pr[X] { v, ok := s.Peek(); return pr[X]{v, ok} }, eqv[pr[X]]))
	return out
}

func queueReads[X comparable](q queues.Queue[X], d *Dom[X]) []ReadOp {
	out := commonReads[X](q, q.(jsonAPI), true, d)
	out = append(out, rop("Peek", func() pr[X] { v, ok := q.Peek(); return pr[X]{v, ok} }, eqv[pr[X]]))
	if f, ok := q.(interface{ Full() bool }); ok {
		out = append(out, rop("Full", f.Full, eqv[bool]))
	}
	return out
}

func mapReads[K comparable, V comparable](m maps.Map[K, V], js jsonAPI, ordered bool, dk *Dom[K], dv *Dom[V]) []ReadOp {
	out := commonReads[V](m, js, ordered, dv)
	keyEq := slices.Equal[[]K]
	if !ordered {
		keyEq = sameMultiset[K]
	}
	out = append(out, rop("Keys", m.Keys, keyEq))
	for _, k := range []K{dk.Alpha[0], dk.Alpha[len(dk.Alpha)/2], dk.Alpha[len(dk.Alpha)-1], dk.Probe[0]} {
		k := k
		out = append(out, rop("Get", func() pr[V] { v, ok := m.Get(k); return pr[V]{v, ok} }, eqv[pr[V]]))
	}
	return out
}

// attachReads builds dy.Reads for the concrete container behind dy.Raw.
func attachReads[T comparable, V comparable](dy *Dyn, d *Dom[T], dv *Dom[V], cfg dynCfg) {
	cm := d.Cmps[cfg.cmp]
	probes := []T{d.Alpha[0], d.Alpha[len(d.Alpha)/2], d.Alpha[len(d.Alpha)-1], d.Probe[0], d.Probe[len(d.Probe)-1]}
	otherSet := func(kind string) *algSet[T] {
		o := NewDyn(kind, d, dv, cfg)
		vs := make([]any, 0, 6)
		for i := 0; i < len(d.Alpha); i += 2 {
			vs = append(vs, d.Alpha[i])
		}
		o.PutAny(vs)
		switch x := o.Raw.(type) {
		case *hashset.Set[T]:
			return wrapHashSet(x)
		case *linkedhashset.Set[T]:
			return wrapLinkedSet(x)
		case *treeset.Set[T]:
			return wrapTreeSet(x, cm.F)
		}
		return nil
	}
	dy.Reads = func() []ReadOp {
		switch x := dy.Raw.(type) {
		case *arraylist.List[T]:
			return listReads[T](x, wrapAL(x), d)
		case *singlylinkedlist.List[T]:
			return listReads[T](x, wrapSL(x), d)
		case *doublylinkedlist.List[T]:
			return listReads[T](x, wrapDL(x), d)
		case *hashset.Set[T]:
			return setReads[T](dy.Kind, x, x, false, d, nil, wrapHashSet(x), otherSet(dy.Kind))
		case *linkedhashset.Set[T]:
			return setReads[T](dy.Kind, x, x, true, d, wrapLS(x), wrapLinkedSet(x), otherSet(dy.Kind))
		case *treeset.Set[T]:
			return setReads[T](dy.Kind, x, x, true, d, wrapTS(x, cm.F), wrapTreeSet(x, cm.F), otherSet(dy.Kind))
		case *arraystack.Stack[T]:
			return append(stackReads[T](x, d, nil), idxIterReads(func() containers.IteratorWithIndex[T] { return x.Iterator() })...)
		case *linkedliststack.Stack[T]:
			return append(stackReads[T](x, d, nil), idxIterReads(func() containers.IteratorWithIndex[T] { return x.Iterator() })...)
		case *arrayqueue.Queue[T]:
			return append(queueReads[T](x, d), idxIterReads(func() containers.IteratorWithIndex[T] { return x.Iterator() })...)
		case *linkedlistqueue.Queue[T]:
			return append(queueReads[T](x, d), idxIterReads(func() containers.IteratorWithIndex[T] { return x.Iterator() })...)
		case *circularbuffer.Queue[T]:
			return append(queueReads[T](x, d), idxIterReads(func() containers.IteratorWithIndex[T] { return x.Iterator() })...)
		case *priorityqueue.Queue[T]:
			return append(queueReads[T](x, d), idxIterReads(func() containers.IteratorWithIndex[T] { return x.Iterator() })...)
		case *binaryheap.Heap[T]:
			out := commonReads[T](x, x, true, d)
			out = append(out, rop("Peek", func() pr[T] { v, ok := x.Peek(); return pr[T]{v, ok} }, eqv[pr[T]]))
			return append(out, idxIterReads(func() containers.IteratorWithIndex[T] { return x.Iterator() })...)
		}
		// key-value containers
		var out []ReadOp
		switch x := dy.Raw.(type) {
		case *treemap.Map[T, V]:
			out = mapReads[T, V](x, x, true, d, dv)
			out = append(out, keyIterReads(func() containers.IteratorWithKey[T, V] { return x.Iterator() })...)
			out = append(out, enumKeyReads(wrapTM(x, cm.F), d, dv)...)
			out = append(out,
				rop("Min", func() pr3[T, V] { k, v, ok := x.Min(); return pr3[T, V]{k, v, ok} }, eqv[pr3[T, V]]),
				rop("Max", func() pr3[T, V] { k, v, ok := x.Max(); return pr3[T, V]{k, v, ok} }, eqv[pr3[T, V]]))
			for _, k := range probes {
				k := k
				out = append(out,
					rop("Floor", func() pr3[T, V] { a, b, ok := x.Floor(k); return pr3[T, V]{a, b, ok} }, eqv[pr3[T, V]]),
					rop("Ceiling", func() pr3[T, V] { a, b, ok := x.Ceiling(k); return pr3[T, V]{a, b, ok} }, eqv[pr3[T, V]]))
			}
		case *linkedhashmap.Map[T, V]:
			out = mapReads[T, V](x, x, true, d, dv)
			out = append(out, keyIterReads(func() containers.IteratorWithKey[T, V] { return x.Iterator() })...)
			out = append(out, enumKeyReads(wrapLM(x), d, dv)...)
		case *hashbidimap.Map[T, V]:
			out = mapReads[T, V](x, x, false, d, dv)
			for _, v := range []V{dv.Alpha[0], dv.Alpha[len(dv.Alpha)-1], dv.Probe[0]} {
				v := v
				out = append(out, rop("GetKey", func() pr[T] { k, ok := x.GetKey(v); return pr[T]{k, ok} }, eqv[pr[T]]))
			}
		case *treebidimap.Map[T, V]:
			out = mapReads[T, V](x, x, true, d, dv)
			out = append(out, keyIterReads(func() containers.IteratorWithKey[T, V] { return x.Iterator() })...)
			out = append(out, enumKeyReads(wrapTB(x, cm.F, dv.Cmps[cfg.vcmp].F), d, dv)...)
			for _, v := range []V{dv.Alpha[0], dv.Alpha[len(dv.Alpha)-1], dv.Probe[0]} {
				v := v
				out = append(out, rop("GetKey", func() pr[T] { k, ok := x.GetKey(v); return pr[T]{k, ok} }, eqv[pr[T]]))
			}
		case *redblacktree.Tree[T, V]:
			out = mapReads[T, V](x, x, true, d, dv)
			out = append(out, keyIterReads(func() containers.IteratorWithKey[T, V] { return x.Iterator() })...)
			nodeKV := func(n *redblacktree.Node[T, V], ok bool) pr3[T, V] {
				if n == nil {
					return pr3[T, V]{OK: ok}
				}
				return pr3[T, V]{n.Key, n.Value, ok}
			}
			out = append(out,
				rop("Left", func() pr3[T, V] { return nodeKV(x.Left(), true) }, eqv[pr3[T, V]]),
				rop("Right", func() pr3[T, V] { return nodeKV(x.Right(), true) }, eqv[pr3[T, V]]),
				rop("Root.Size", func() int { return x.Root.Size() }, eqv[int]))
			for _, k := range probes {
				k := k
				out = append(out,
					rop("Floor", func() pr3[T, V] { return nodeKV(x.Floor(k)) }, eqv[pr3[T, V]]),
					rop("Ceiling", func() pr3[T, V] { return nodeKV(x.Ceiling(k)) }, eqv[pr3[T, V]]),
					rop("GetNode", func() int { return x.GetNode(k).Size() }, eqv[int]))
			}
		case *avltree.Tree[T, V]:
			out = mapReads[T, V](x, x, true, d, dv)
			out = append(out, keyIterReads(func() containers.IteratorWithKey[T, V] { return x.Iterator() })...)
			nodeKV := func(n *avltree.Node[T, V], ok bool) pr3[T, V] {
				if n == nil {
					return pr3[T, V]{OK: ok}
				}
				return pr3[T, V]{n.Key, n.Value, ok}
			}
			out = append(out,
				rop("Left", func() pr3[T, V] { return nodeKV(x.Left(), true) }, eqv[pr3[T, V]]),
				rop("Right", func() pr3[T, V] { return nodeKV(x.Right(), true) }, eqv[pr3[T, V]]),
				rop("Root.Size", func() int { return x.Root.Size() }, eqv[int]))
			for _, k := range probes {
				k := k
				out = append(out,
					rop("Floor", func() pr3[T, V] { return nodeKV(x.Floor(k)) }, eqv[pr3[T, V]]),
					rop("Ceiling", func() pr3[T, V] { return nodeKV(x.Ceiling(k)) }, eqv[pr3[T, V]]),
					rop("GetNode+Next+Prev", func() pr3[T, V] {
						n := x.GetNode(k)
						if n == nil {
							return pr3[T, V]{}
						}
						return nodeKV(n.Next().Prev(), true)
					}, eqv[pr3[T, V]]))
			}
		case *btree.Tree[T, V]:
			out = mapReads[T, V](x, x, true, d, dv)
			out = append(out, keyIterReads(func() containers.IteratorWithKey[T, V] { return x.Iterator() })...)
			type anyPair struct{ K, V any }
			out = append(out,
				rop("Height", x.Height, eqv[int]),
				rop("LeftKey+LeftValue", func() anyPair { return anyPair{x.LeftKey(), x.LeftValue()} }, eqv[anyPair]),
				rop("RightKey+RightValue", func() anyPair { return anyPair{x.RightKey(), x.RightValue()} }, eqv[anyPair]),
				rop("Left", func() int {
					if n := x.Left(); n != nil {
						return len(n.Entries)
					}
					return -1
				}, eqv[int]),
				rop("Right", func() int {
					if n := x.Right(); n != nil {
						return len(n.Entries)
					}
					return -1
				}, eqv[int]),
				rop("Root.Size", func() int { return x.Root.Size() }, eqv[int]))
			for _, k := range probes {
				k := k
				out = append(out, rop("GetNode", func() int { return x.GetNode(k).Size() }, eqv[int]))
			}
		default:
			if m, ok := dy.Raw.(maps.Map[T, V]); ok { // HashMap
				out = mapReads[T, V](m, dy.JSON, dy.Ordered, d, dv)
			}
		}
		return out
	}
}
