package props

import (
	"slices"

	"godsverif/core"
)

// runHugeTree builds a comparator-ordered key-value container with a couple of
// hundred thousand keys in one of the adversarial orders (strictly falling,
// strictly rising, zig-zag) and checks it at a few checkpoints only. The
// oracle needs no model: the key set is known by construction (i*6 for the
// inserted i, value = 7*key+1), so Size, Keys (sorted, complete), Values
// (aligned), Get, the extremes, the shape walkers and the comparator-call
// bound can all be checked directly. Sizes like this are where fixed-size
// scratch arrays, recursion depth and int narrowing give out; nothing below a
// few tens of thousands of keys reaches them.
func runHugeTree(c *core.Ctx, h int, n int, flags func(m *KVMon[int, int])) {
	kind := hugeKinds[h%len(hugeKinds)]
	fam := []int{1, 0, 2}[(h/len(hugeKinds))%3] // descending, ascending, zig-zag: each kind gets each order
	r := c.R
	cm := intCmps[[]int{0, 1, 3}[r.Intn(3)]] // total orders: every key is its own class
	var a *KV[int, int]
	switch kind {
	case "RedBlackTree":
		a = newRBT[int, int](cm)
	case "AVLTree":
		a = newAVL[int, int](cm)
	case "BTree":
		a = newBTree[int, int]([]int{3, 4, 5, 16, 64, 128}[r.Intn(6)], cm)
	case "TreeMap":
		a = newTreeMap[int, int](cm)
	default:
		a = newTreeBidi[int, int](cm, intCmps[[]int{0, 1, 3}[r.Intn(3)]])
	}
	hugeDrive(c, a, n, fam, flags)
	c.Count("obs:huge-cases", 1)
}

// wideBTreeCases: B-trees whose nodes hold a hundred to a thousand keys, with
// enough keys for three levels, loaded in each of the six order families.
// Whatever is linear in the node width (a scan where a bisection belongs, an
// element-by-element shift repeated per key) only shows against the stated
// per-call bound when nodes are this wide and full.
const wideBTreeCases = 12

var wideOrders = []int{100, 128, 200, 256, 500, 1000}

func runWideBTree(c *core.Ctx, j int, flags func(m *KVMon[int, int])) {
	r := c.R
	order := wideOrders[j%len(wideOrders)]
	fam := (j/len(wideOrders))*3 + r.Intn(3) // 0..5
	n := r.Range(12000, 40000)
	if c.Tier == "thorough" {
		n = r.Range(60000, 300000)
	}
	cm := intCmps[[]int{0, 1, 3}[r.Intn(3)]]
	a := newBTree[int, int](order, cm)
	hugeDrive(c, a, n, fam, flags)
	c.Count("obs:wide-btree-cases", 1)
	c.Count("btree-order:"+itoa(order), 1)
}

func hugeDrive(c *core.Ctx, a *KV[int, int], n int, fam int, flags func(m *KVMon[int, int])) {
	r := c.R
	d := IntDom(8)
	kind := a.Name
	c.Begin(a.Name, "NewWith", a.Order, a.CmpName)
	m := NewKVMon(c, a, d) // only for the flags and the work bound; its model is not used
	flags(m)
	c.Note("huge %s: %d keys inserted %s", kind, n, orderNames[fam%6])
	val := func(k int) int { return 7*k + 1 }
	live := make([]int, 0, n)
	checkpoint := func(when string) {
		c.Begin(a.Name, "checkpoint", when, len(live))
		if sz := a.M.Size(); sz != len(live) {
			c.Fail("size", "huge", "%s with %d live keys (%s): Size() = %d", a.Name, len(live), when, sz)
		}
		if e := a.M.Empty(); e != (len(live) == 0) {
			c.Fail("empty", "huge", "%s with %d live keys: Empty() = %v", a.Name, len(live), e)
		}
		want := slices.Clone(live)
		slices.SortFunc(want, a.KCmp)
		if a.Count != nil {
			*a.Count = -1 << 40 // whole-container walks legitimately make millions of comparisons here
		}
		ks := a.M.Keys()
		vs := a.M.Values()
		m.resetCount()
		if len(ks) != len(want) || len(vs) != len(want) {
			c.Fail("keys", "huge-length", "%s with %d live keys (%s): len(Keys()) = %d, len(Values()) = %d", a.Name, len(want), when, len(ks), len(vs))
		}
		for i := range want {
			if ks[i] != want[i] {
				c.Fail("keys", "huge-content", "%s with %d live keys (%s): Keys()[%d] = %d, want %d", a.Name, len(want), when, i, ks[i], want[i])
			}
			if a.ValuesSorted {
				continue
			}
			if vs[i] != val(want[i]) {
				c.Fail("values", "huge-misaligned", "%s with %d live keys (%s): Values()[%d] = %d, the value of key %d is %d", a.Name, len(want), when, i, vs[i], want[i], val(want[i]))
			}
		}
		for j := 0; j < 200 && len(want) > 0; j++ {
			k := want[r.Intn(len(want))]
			nb := len(live)
			m.resetCount()
			v, ok := a.M.Get(k)
			if !ok || v != val(k) {
				c.Fail("get", "huge", "%s with %d live keys (%s): Get(%d) = (%d,%v), want (%d,true)", a.Name, len(want), when, k, v, ok, val(k))
			}
			if m.Balance && a.Bound != nil && float64(*a.Count) > a.Bound(nb) {
				c.Fail("work", "comparator-calls", "%s with %d keys: Get invoked the comparator %d times, stated bound %.2f", a.Name, nb, *a.Count, a.Bound(nb))
			}
			if v, ok := a.M.Get(k + 3); ok {
				c.Fail("get", "huge-absent", "%s: Get(%d) of an absent key = (%d,true)", a.Name, k+3, v)
			}
		}
		if len(want) > 0 {
			for _, f := range a.Min {
				if k, v, ok := f(); !ok || k != want[0] || (!a.ValuesSorted && v != val(k)) {
					c.Fail("extreme", "huge-min", "%s with %d live keys: min = (%d,%d,%v), want key %d", a.Name, len(want), k, v, ok, want[0])
				}
			}
			for _, f := range a.Max {
				if k, v, ok := f(); !ok || k != want[len(want)-1] || (!a.ValuesSorted && v != val(k)) {
					c.Fail("extreme", "huge-max", "%s with %d live keys: max = (%d,%d,%v), want key %d", a.Name, len(want), k, v, ok, want[len(want)-1])
				}
			}
		}
		if m.Balance && a.Walk != nil {
			a.Walk(c, a, a.M.Size())
		}
		c.Count("obs:huge-checkpoints", 1)
	}
	step := n / 3
	for j, i := range orderFamily(r, n, fam) {
		k := i * 6
		nb := len(live)
		m.resetCount()
		a.M.Put(k, val(k))
		live = append(live, k)
		if m.Balance && a.Bound != nil && float64(*a.Count) > a.Bound(nb+1) {
			c.Fail("work", "comparator-calls", "%s.Put on a tree with %d keys invoked the comparator %d times, stated bound %.2f", a.Name, nb+1, *a.Count, a.Bound(nb+1))
		}
		if (j+1)%step == 0 {
			checkpoint("while growing")
		}
	}
	checkpoint("fully grown")
	// drain the lower half in ascending key order, then look again
	slices.Sort(live)
	half := len(live) / 2
	for _, k := range live[:half] {
		nb := a.M.Size()
		m.resetCount()
		a.M.Remove(k)
		if m.Balance && a.Bound != nil && float64(*a.Count) > a.Bound(nb) {
			c.Fail("work", "comparator-calls", "%s.Remove on a tree with %d keys invoked the comparator %d times, stated bound %.2f", a.Name, nb, *a.Count, a.Bound(nb))
		}
	}
	live = live[half:]
	checkpoint("after draining the lower half")
	c.Begin(a.Name, "Clear")
	a.M.Clear()
	live = live[:0]
	checkpoint("after Clear")
	c.Nontrivial()
}

var hugeKinds = []string{"RedBlackTree", "AVLTree", "BTree", "TreeMap", "TreeBidiMap"}

const hugeCases = 15 // 5 kinds x 3 insertion orders

func hugeN(tier string) int {
	if tier == "thorough" {
		return 1200000
	}
	return 230000
}
