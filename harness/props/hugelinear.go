package props

import (
	"strings"

	"godsverif/core"

	"github.com/emirpasic/gods/v2/containers"
	"github.com/emirpasic/gods/v2/lists/arraylist"
	"github.com/emirpasic/gods/v2/lists/doublylinkedlist"
	"github.com/emirpasic/gods/v2/lists/singlylinkedlist"
	"github.com/emirpasic/gods/v2/queues/arrayqueue"
	"github.com/emirpasic/gods/v2/queues/circularbuffer"
	"github.com/emirpasic/gods/v2/queues/linkedlistqueue"
	"github.com/emirpasic/gods/v2/stacks/arraystack"
	"github.com/emirpasic/gods/v2/stacks/linkedliststack"
)

// Huge linear containers: a few hundred thousand elements in the lists, stacks,
// queues and a ring of that capacity. The content is known by construction
// (element i is 6*i), so no model is needed. What gives out at this scale:
// recursion per element, quadratic helpers that were fine at 300 elements,
// int32 indices, growth arithmetic in float32.
const hugeLinearKinds = 8

func hugeLinearN(tier string) int {
	if tier == "thorough" {
		return 2000000
	}
	return 300000
}

// runHugeLinear builds container number h with n elements and checks it
// through the operations that are linear or better.
func runHugeLinear(c *core.Ctx, h, n int) {
	val := func(i int) int { return 6 * i }
	type lin struct {
		name    string
		cont    containers.Container[int]
		put     func(v int)
		takeOne func() (int, bool) // nil for lists
		first   func() (int, bool) // element that comes out / sits at index 0
		lifo    bool
	}
	var x lin
	switch h % hugeLinearKinds {
	case 0:
		l := arraylist.New[int]()
		x = lin{name: "ArrayList", cont: l, put: func(v int) { l.Add(v) }, first: func() (int, bool) { return l.Get(0) }}
	case 1:
		l := singlylinkedlist.New[int]()
		x = lin{name: "SinglyLinkedList", cont: l, put: func(v int) { l.Add(v) }, first: func() (int, bool) { return l.Get(0) }}
	case 2:
		l := doublylinkedlist.New[int]()
		x = lin{name: "DoublyLinkedList", cont: l, put: func(v int) { l.Add(v) }, first: func() (int, bool) { return l.Get(0) }}
	case 3:
		s := arraystack.New[int]()
		x = lin{name: "ArrayStack", cont: s, put: s.Push, takeOne: s.Pop, first: s.Peek, lifo: true}
	case 4:
		s := linkedliststack.New[int]()
		x = lin{name: "LinkedListStack", cont: s, put: s.Push, takeOne: s.Pop, first: s.Peek, lifo: true}
	case 5:
		q := arrayqueue.New[int]()
		x = lin{name: "ArrayQueue", cont: q, put: q.Enqueue, takeOne: q.Dequeue, first: q.Peek}
	case 6:
		q := linkedlistqueue.New[int]()
		x = lin{name: "LinkedListQueue", cont: q, put: q.Enqueue, takeOne: q.Dequeue, first: q.Peek}
	default:
		q := circularbuffer.New[int](n)
		x = lin{name: "CircularBuffer", cont: q, put: q.Enqueue, takeOne: q.Dequeue, first: q.Peek}
	}
	c.Begin(x.name, "build", n)
	for i := 0; i < n; i++ {
		x.put(val(i))
	}
	lo, hi := 0, n // live elements are val(lo..hi-1)
	check := func(when string) {
		c.Begin(x.name, "checkpoint", when, hi-lo)
		if sz := x.cont.Size(); sz != hi-lo {
			c.Fail("size", "huge", "%s with %d elements (%s): Size() = %d", x.name, hi-lo, when, sz)
		}
		if e := x.cont.Empty(); e != (hi == lo) {
			c.Fail("empty", "huge", "%s with %d elements: Empty() = %v", x.name, hi-lo, e)
		}
		vs := x.cont.Values()
		if len(vs) != hi-lo {
			c.Fail("values", "huge-length", "%s with %d elements (%s): len(Values()) = %d", x.name, hi-lo, when, len(vs))
		}
		for j := range vs {
			want := val(lo + j)
			if x.lifo {
				want = val(hi - 1 - j)
			}
			if vs[j] != want {
				c.Fail("values", "huge-content", "%s with %d elements (%s): Values()[%d] = %d, want %d", x.name, hi-lo, when, j, vs[j], want)
			}
		}
		if f, ok := x.first(); hi > lo {
			want := val(lo)
			if x.lifo {
				want = val(hi - 1)
			}
			if !ok || f != want {
				c.Fail("first", "huge", "%s with %d elements: first element = (%d,%v), want %d", x.name, hi-lo, f, ok, want)
			}
		} else if ok {
			c.Fail("first", "huge-empty", "%s empty: first element = (%d,true)", x.name, f)
		}
		if s := x.cont.String(); !strings.HasPrefix(s, x.name) {
			c.Fail("string", "prefix", "%s.String() of %d elements does not begin with its name", x.name, hi-lo)
		}
		c.Count("obs:huge-linear-checkpoints", 1)
	}
	check("fully grown")
	if x.takeOne != nil {
		// remove two thirds one by one (crossing every shrink threshold); the
		// array queue deletes at the front of a slice, which is linear per call
		// by design, so it only gives up 3000 elements
		take := n * 2 / 3
		if x.name == "ArrayQueue" {
			take = 3000
		}
		for k := 0; k < take; k++ {
			v, ok := x.takeOne()
			want := val(lo)
			if x.lifo {
				want = val(hi - 1)
			}
			if !ok || v != want {
				c.Fail("take", "huge", "%s: removal %d returned (%d,%v), want %d", x.name, k, v, ok, want)
			}
			if x.lifo {
				hi--
			} else {
				lo++
			}
		}
		check("after removing from the front/top")
	} else {
		// lists: remove from the back (constant or linear per step in all three)
		l := x.cont.(interface{ Remove(int) })
		for k := 0; k < 2000; k++ {
			l.Remove(hi - 1)
			hi--
		}
		check("after removing 2000 from the back")
	}
	c.Begin(x.name, "Clear")
	x.cont.Clear()
	lo, hi = 0, 0
	check("after Clear")
	x.put(val(0))
	hi = 1
	check("one element after Clear")
	c.Count("obs:huge-linear-cases", 1)
	c.Nontrivial()
}
