package props

import (
	"encoding/json"

	"godsverif/core"
)

// lockstep applies the same random calls to two containers of the same kind
// and configuration and requires them to stay equivalent (the continuation
// oracle of C12: the loaded container vs. one built from the denotation
// through the ordinary API, whose guarantees C01-C10 check).
func lockstep(c *core.Ctx, a, b *Dyn, steps int, what string) {
	realR := c.R
	defer func() { c.R = realR }()
	for s := 0; s < steps; s++ {
		seed := realR.U64()
		c.R = core.NewR(seed)
		a.Mutate(c)
		c.R = core.NewR(seed)
		b.Mutate(c)
		c.R = realR
		if diff := equivalent(a, b, true); diff != "" {
			c.Fail("continuation", "diverges", "%s(%s %s) %s: after %d further identical calls it differs from a container built from the denotation through the ordinary API: %s", a.Kind, a.Elem, a.Config, what, s+1, diff)
		}
		checkAgreement(c, a)
		if a.Take != nil && realR.Intn(5) == 0 {
			av, aok := a.Take()
			bv, bok := b.Take()
			if !identical(av, bv) || aok != bok {
				c.Fail("continuation", "removal-differs", "%s %s: removal returns (%v,%v), the container built through the API returns (%v,%v)", a.Kind, what, av, aok, bv, bok)
			}
		}
	}
}

// runC12Floats: a load into a container whose prior content includes NaN (an
// element that == never finds again, so "delete what is there, key by key"
// leaves it behind), the infinities and both zeros must give what the same
// load gives on a freshly constructed container of the same configuration;
// a refused load must leave everything as it was.
func runC12Floats(c *core.Ctx, sel int) {
	r := c.R
	kind := dynKinds[sel%len(dynKinds)]
	cfg := drawCfg(r, true)
	var d *Dyn
	var docs []string
	switch {
	case !isKV(kind):
		d = NewDyn(kind, FDom(), IntDom(4), cfg)
		docs = []string{"[]", "null", "[1.5,2.5,1.5]", "[0,3,3,-2.25,1e300]", "[7]", "[1.5,", "{}", `["x"]`}
	case sel/len(dynKinds)%2 == 0:
		d = NewDyn(kind, StrDom(8), FDom(), cfg)
		docs = []string{"{}", "null", `{"a":1.5,"b":3}`, `{"k1":0,"zz":-2.25,"":7}`, `{"a":1.5`, "[]", `{"a":"x"}`}
	default:
		d = NewDyn(kind, FDom(), IntDom(6), cfg)
		docs = []string{"{}", "null", `{"1.5":6,"3":12}`, `{"0":0}`, `{"1.5":6`, "[]"}
	}
	c.Begin(kind, "New", d.Elem, d.Config)
	d.build(c, r.Range(3, 30))
	doc := []byte(docs[r.Intn(len(docs))])
	fresh := d.Fresh()
	before := d.Observe(false)
	c.Begin(kind, "FromJSON", string(doc), "prior content", short(before.Values))
	err := d.JSON.FromJSON(doc)
	errF := fresh.JSON.FromJSON(doc)
	c.Count("attempt:loads-over-float-content", 1)
	if (err == nil) != (errF == nil) {
		c.Fail("replace", "outcome-depends-on-prior-content", "%s(%s).FromJSON(%s) returned %v on a container holding %s, but %v on a fresh one", kind, d.Elem, doc, err, short(before.Values), errF)
	}
	after := d.Observe(false)
	if err != nil {
		if diff := before.Diff(after); diff != "" {
			c.Fail("atomicity", "changed-on-error", "%s(%s).FromJSON(%s) returned %v and changed the container: %s", kind, d.Elem, doc, err, diff)
		}
		c.Nontrivial()
		return
	}
	if diff := after.Diff(fresh.Observe(false)); diff != "" {
		c.Fail("replace", "prior-content-survives", "%s(%s).FromJSON(%s) on a container holding %s differs from the same load on a fresh container: %s", kind, d.Elem, doc, short(before.Values), diff)
	}
	// (no lockstep continuation here: further calls would insert NaN again, and
	// what hash-keyed containers do with several NaN keys is outside every statement)
	c.Nontrivial()
}

func runC12(c *core.Ctx) {
	if c.Index < heapPermCases {
		// every arrangement of small arrays loaded into BinaryHeap / PriorityQueue
		// and drained ("ordered containers sort"): see runHeapPerms in c06.go
		runHeapPerms(c, c.Index)
		return
	}
	if c.Index%47 == 21 {
		runC12Floats(c, c.Index/47)
		return
	}
	r := c.R
	kind := dynKinds[c.Index%len(dynKinds)]
	// with ties the statement leaves the surviving representative open, so the
	// comparator-ordered containers use total orders here
	total := isKV(kind) || kind == "BinaryHeap" || kind == "PriorityQueue" || kind == "TreeSet"
	d := newDynRandom(c, kind, total)
	// prior state
	prior := "empty"
	switch r.Intn(6) {
	case 0:
	case 1:
		d.build(c, r.Range(30, 80))
		prior = "big"
	case 2:
		if d.Cap > 0 {
			for d.C.Size() < d.Cap {
				d.Grow(c)
			}
			d.Mutate(c)
			d.Grow(c)
			prior = "full-ring"
			break
		}
		fallthrough
	default:
		d.build(c, r.Range(1, 12))
		prior = "small"
	}
	// Chained mode (one case in four): the prior state itself comes from a
	// successful load that is NOT observed afterwards; its reference is a
	// container built from the first document's denotation through the ordinary
	// API. A loader that defers work to the first access (lazy re-ordering,
	// pending flags) is thereby hit by the second load while that work is
	// still pending.
	var ref *Dyn
	if r.Chance(1, 4) {
		doc1 := d.GenDoc(r, r.Range(2, 30), false, false)
		// (a bidirectional map whose input repeats a value has several valid
		// outcomes; such a first document cannot serve as an unobserved reference)
		if elems1, ok1 := d.Denote(doc1); ok1 && !(d.GetKey != nil && hasDupValues(elems1)) {
			c.Begin(kind, "FromJSON", "first-of-two(unobserved)", string(doc1))
			if err1 := d.JSON.FromJSON(doc1); err1 == nil {
				ref = d.Fresh()
				ref.PutAny(elems1)
				prior = "loaded-and-not-observed"
				c.Count("attempt:chained-loads", 1)
			} else {
				c.Fail("replace", "well-formed-rejected", "%s.FromJSON(%s) returned %v for a well-formed document of its own element type", kind, doc1, err1)
			}
		}
	}
	// One case in six: a REFUSED load comes first and is not looked at (what a
	// refused load leaves in spare storage - half-decoded elements beyond the
	// live ones - must not leak into the next, successful one through null
	// entries and omitted fields, which a decoder does not overwrite).
	if ref == nil && r.Chance(1, 6) {
		bad := replaceElement(r, d.GenDoc(r, r.Range(2, 12), false, false))
		c.Begin(kind, "FromJSON", "refused-load-first(unobserved)", string(bad))
		if err0 := d.JSON.FromJSON(bad); err0 != nil {
			c.Count("attempt:refused-load-first", 1)
		} else {
			c.Count("attempt:refused-load-first-was-accepted", 1)
		}
	}
	priorSize := d.C.Size()
	if ref != nil {
		priorSize = ref.C.Size() // (Size() of the reference: the container under test stays unobserved)
	}
	// input
	dupK, dupV := r.Chance(1, 5), r.Chance(1, 4) && d.GetKey != nil
	n := []int{0, 1, 2, r.Range(3, 9), r.Range(3, 9), r.Range(10, 40)}[r.Intn(6)]
	if d.Cap > 0 && r.Bool() {
		n = d.Cap + r.Range(1, 5) // longer than the capacity
	}
	if c.Index%37 == 3 && kind != "BinaryHeap" && kind != "PriorityQueue" && !c.Concurrent {
		// documents of tens of kilobytes (decoders that switch strategy by
		// document size: streaming, chunked, "skip what will be dropped anyway")
		n = r.Range(1500, 4000)
		c.Count("attempt:long-documents", 1)
	}
	valid := d.GenDoc(r, n, dupK, dupV)
	otherState := d.Fresh()
	otherState.build(c, r.Range(0, 20))
	other, _ := otherState.JSON.ToJSON()
	data, family := hostileJSON(r, valid, other)
	c.Count("input:"+family, 1)
	// floors count ATTEMPTS (what the workload did), never outcomes (what the
	// implementation chose to do), so a correct variant cannot make a run inconclusive
	if priorSize > 0 {
		if family == "well-formed" || family == "other-state-output" {
			c.Count("attempt:well-formed-over-content:"+kind, 1)
		} else {
			c.Count("attempt:hostile-over-content", 1)
		}
	}
	if family == "element-replaced" {
		c.Count("attempt:element-replaced", 1)
	}
	switch string(data) {
	case "null", "[]", "{}":
		c.Count("attempt:literal:"+string(data), 1)
	}
	if dupV {
		c.Count("attempt:bidi-duplicate-values", 1)
	}

	var before Obs
	var bw []any
	if ref == nil {
		before = d.Observe(true)
		if d.Walk != nil {
			bw = d.Walk()
		}
	} else {
		before = ref.Observe(true)
	}
	var err error
	via := []string{"FromJSON", "UnmarshalJSON", "json.Unmarshal"}[r.Intn(3)]
	shown := string(data)
	if len(shown) > 300 {
		shown = shown[:300] + "…"
	}
	c.Begin(kind, via, prior, family, shown)
	switch via {
	case "FromJSON":
		err = d.JSON.FromJSON(data)
	case "UnmarshalJSON":
		err = d.JSON.UnmarshalJSON(data)
	default:
		err = json.Unmarshal(data, d.Raw)
	}
	if err != nil && ref != nil {
		// the container must be exactly what the first, successful load made it
		if diff := equivalent(d, ref, true); diff != "" {
			c.Fail("atomicity", "changed-on-error-after-unobserved-load", "%s(%s %s): a successful FromJSON followed, without any access in between, by %s(%s) returning error %q leaves a container that differs from what the first input denotes: %s", kind, d.Elem, d.Config, via, shown, err.Error(), diff)
		}
		c.Count("outcome:error", 1)
		lockstep(c, d, ref, r.Range(5, 20), "after a failed load that followed an unobserved successful one")
		c.Nontrivial()
		return
	}
	if err != nil {
		after := d.Observe(true)
		if diff := before.Diff(after); diff != "" {
			c.Fail("atomicity", "changed-on-error", "%s(%s %s) with prior content %s: %s(%s) returned error %q but the container changed: %s", kind, d.Elem, d.Config, short(before.Values), via, shown, err.Error(), diff)
		}
		if d.Walk != nil && !sameWalk(bw, d.Walk()) {
			c.Fail("atomicity", "changed-on-error", "%s: %s returned an error but the iteration order changed", kind, via)
		}
		c.Count("outcome:error", 1)
		if priorSize > 0 {
			c.Count("outcome:error-over-content", 1)
		}
		if family == "element-replaced" {
			c.Count("outcome:element-type-error", 1)
		}
		// an atomic failure leaves a container that keeps working
		twin := d.Fresh()
		twin.PutAny(ownContent(d))
		if diff := equivalent(d, twin, true); diff == "" {
			lockstep(c, d, twin, r.Range(3, 12), "after a failed load")
		}
		c.Nontrivial()
		return
	}
	c.Count("outcome:success", 1)
	if !json.Valid(data) {
		c.Count("outcome:success-on-invalid-json(not-judged)", 1)
		c.Nontrivial()
		return
	}
	elems, ok := d.Denote(data)
	if !ok {
		c.Count("outcome:success-on-undenotable(not-judged)", 1)
		c.Nontrivial()
		return
	}
	if priorSize > 0 {
		c.Count("outcome:success-over-content", 1)
		c.Count("success-over-content:"+kind, 1)
	}
	expected := d.Fresh()
	if d.GetKey != nil && hasDupValues(elems) {
		// several one-to-one subsets are reachable depending on Put order:
		// validate the answer against that set, then resynchronise.
		checkBidiSubset(c, d, elems, shown)
		expected.PutAny(ownContent(d))
		c.Count("outcome:bidi-duplicate-values", 1)
	} else {
		expected.PutAny(elems)
	}
	if diff := equivalent(d, expected, true); diff != "" {
		c.Fail("replace", "not-the-denotation", "%s(%s %s) with prior content %s: after successful %s(%s) the container differs from what the input denotes: %s", kind, d.Elem, d.Config, short(before.Values), via, shown, diff)
	}
	switch string(data) {
	case "null", "[]", "{}":
		c.Count("continuation-after:"+string(data), 1)
	}
	lockstep(c, d, expected, r.Range(20, 60), "after a successful load")
	c.State(core.Mix(core.HashString(kind), core.HashString(prior), core.HashString(string(data))))
	c.Nontrivial()
}

// ownContent returns what PutAny needs to rebuild d's current content in a
// fresh container (pairs for key-value containers; insertion order for
// stacks is bottom-up).
func ownContent(d *Dyn) []any {
	if d.Keys != nil {
		var out []any
		for _, k := range d.Keys() {
			v, _ := d.Get(k)
			out = append(out, [2]any{k, v})
		}
		return out
	}
	vs := d.Values()
	if d.Family == "stack" {
		for i, j := 0, len(vs)-1; i < j; i, j = i+1, j-1 {
			vs[i], vs[j] = vs[j], vs[i]
		}
	}
	return vs
}

func hasDupValues(pairs []any) bool {
	seen := map[any]bool{}
	last := map[any]any{}
	for _, p := range pairs {
		kv := p.([2]any)
		last[kv[0]] = kv[1]
	}
	for _, v := range last {
		if seen[v] {
			return true
		}
		seen[v] = true
	}
	return false
}

// checkBidiSubset: with duplicate values in the input, any one-to-one subset
// reachable by Putting the decoded pairs in some order is acceptable: every
// pair held must be a decoded pair, every distinct value is held exactly
// once, and the two directions agree.
func checkBidiSubset(c *core.Ctx, d *Dyn, pairs []any, shown string) {
	decoded := map[any]any{}
	for _, p := range pairs {
		kv := p.([2]any)
		decoded[kv[0]] = kv[1]
	}
	distinct := map[any]bool{}
	for _, v := range decoded {
		distinct[v] = true
	}
	keys := d.Keys()
	if len(keys) != len(distinct) || d.C.Size() != len(distinct) {
		c.Fail("replace", "bidi-size", "%s after loading %s holds %d pairs, the input has %d distinct values", d.Kind, shown, len(keys), len(distinct))
	}
	held := map[any]bool{}
	for _, k := range keys {
		v, ok := d.Get(k)
		if dv, in := decoded[k]; !ok || !in || dv != v {
			c.Fail("replace", "bidi-foreign-pair", "%s after loading %s holds (%v,%v), which the input does not contain", d.Kind, shown, k, v)
		}
		if held[v] {
			c.Fail("replace", "bidi-not-one-to-one", "%s after loading %s holds value %v under two keys", d.Kind, shown, v)
		}
		held[v] = true
		if bk, bok := d.GetKey(v); !bok || bk != k {
			c.Fail("replace", "bidi-directions-disagree", "%s after loading %s: Get(%v) = %v but GetKey(%v) = (%v,%v)", d.Kind, shown, k, v, v, bk, bok)
		}
	}
}

func init() {
	core.Register(&core.Prop{
		ID:    "C12",
		Title: "Deserializing replaces content, keeps the container sound, is atomic on error",
		Cases: func(tier string) int { return tierN(tier, 63000, 2100000) },
		Run:   runC12,
		Rule: "one (prior state, input) pair per case, cycling through all 21 kinds and element types; prior states empty, small, big, full wrapped ring; inputs from ten families: well-formed documents of the container's type (incl. duplicate keys, duplicate values for bidirectional maps, " +
			"arrays longer than the ring capacity, \\u-escaped keys), the same with the element at the first/middle/last position replaced by a value of another JSON type (overflowing numbers, floats, null, nested), a literal corpus (null, [], {}, [null], truncated and malformed texts, BOM), " +
			"every-length truncations, single-byte flips/insertions/deletions, random bytes, 10001-deep nesting, trailing garbage, another state's output; loaded through FromJSON, UnmarshalJSON or json.Unmarshal. " +
			"On error every observer and the iteration order must equal the snapshot taken before, and the container must keep working; on success with a denotable input the container must be equivalent to a fresh one into which the harness-decoded denotation is inserted through the ordinary API, " +
			"and stay equivalent over 20-60 further identical calls (with the C15 agreement checks). Every case is non-trivial; distinct = distinct hash of the call list incl. prior history and input.",
		Floors: func(tier string, m map[string]int64) []string {
			f := &floorCheck{m: m}
			for _, k := range dynKinds {
				f.atLeast("attempt:well-formed-over-content:"+k, 100)
			}
			f.atLeast("attempt:element-replaced", 1500)
			f.atLeast("attempt:loads-over-float-content", 1000)
			f.atLeast("heap:arrangement-cases", heapPermCases)
			f.atLeast("attempt:long-documents", 800)
			f.atLeast("attempt:hostile-over-content", 3000)
			for _, l := range []string{"null", "[]", "{}"} {
				f.atLeast("attempt:literal:"+l, 10)
			}
			f.atLeast("attempt:bidi-duplicate-values", 20)
			return f.missing
		},
		Files: serFiles,
		Assumptions: []string{
			"the denotation of an input is what encoding/json decodes into a fresh []T / map[K]V (pairs in document order); success on input that is not valid JSON or not denotable for the type is recorded but not judged on content",
			"comparator-ordered containers use total orders here (natural, reversed, un-normalised): with ties the statement leaves the surviving representative open",
			"a clean run says the property held on the executed (state, input) pairs only",
		},
	})
}
