package props

import (
	"fmt"
	"sort"

	"godsverif/core"

	"github.com/emirpasic/gods/v2/containers"

	"github.com/emirpasic/gods/v2/lists/arraylist"
	"github.com/emirpasic/gods/v2/lists/doublylinkedlist"
	"github.com/emirpasic/gods/v2/lists/singlylinkedlist"
	"github.com/emirpasic/gods/v2/maps"
	"github.com/emirpasic/gods/v2/maps/hashbidimap"
	"github.com/emirpasic/gods/v2/maps/hashmap"
	"github.com/emirpasic/gods/v2/maps/linkedhashmap"
	"github.com/emirpasic/gods/v2/maps/treebidimap"
	"github.com/emirpasic/gods/v2/maps/treemap"
	"github.com/emirpasic/gods/v2/queues"
	"github.com/emirpasic/gods/v2/queues/arrayqueue"
	"github.com/emirpasic/gods/v2/queues/circularbuffer"
	"github.com/emirpasic/gods/v2/queues/linkedlistqueue"
	"github.com/emirpasic/gods/v2/queues/priorityqueue"
	"github.com/emirpasic/gods/v2/sets"
	"github.com/emirpasic/gods/v2/sets/hashset"
	"github.com/emirpasic/gods/v2/sets/linkedhashset"
	"github.com/emirpasic/gods/v2/sets/treeset"
	"github.com/emirpasic/gods/v2/stacks"
	"github.com/emirpasic/gods/v2/stacks/arraystack"
	"github.com/emirpasic/gods/v2/stacks/linkedliststack"
	"github.com/emirpasic/gods/v2/trees/avltree"
	"github.com/emirpasic/gods/v2/trees/binaryheap"
	"github.com/emirpasic/gods/v2/trees/btree"
	"github.com/emirpasic/gods/v2/trees/redblacktree"
)

// Dyn is a uniform, type-erased view of any of the 21 containers, used by
// the properties that quantify over "every container" (C11, C12, C15, C16,
// C17, C18). It is built by typed generic constructors, so the calls it makes
// are ordinary statically typed calls on the real container.
type Dyn struct {
	Kind    string // the container's name: what String() must start with
	Family  string // list, set, stack, queue, heap, map, tree
	Elem    string // element / key:value types
	Config  string
	Raw     any
	C       dynContainer
	Values  func() []any
	Keys    func() []any            // maps and trees only
	Get     func(k any) (any, bool) // maps and trees only
	GetKey  func(v any) (any, bool) // bidirectional maps only
	JSON    jsonAPI
	Ordered bool                // enumeration order is defined (all but HashSet, HashMap, HashBidiMap)
	Mutate  func(c *core.Ctx)   // one random mutating call (recorded in the trace)
	Grow    func(c *core.Ctx)   // one inserting call
	Fresh   func() *Dyn         // same kind and configuration, newly constructed
	Take    func() (any, bool)  // stacks, queues, heaps: Pop/Dequeue
	Walk    func() []any        // full forward iterator walk, (index|key, value) pairs; nil for hash containers
	PutAny  func(vs []any)      // insert decoded elements in order (for building expected states): Add/Push/Enqueue/Put pairs
	Cap     int                 // ring capacity
	ElemOf  func(r *core.R) any // a random element (value containers) for workloads
	JSONArr bool                // serializes as an array (value containers) / object (key-value containers)
	Reads   func() []ReadOp     // read-only catalogue with sequential answers (C18)
	Big     bool                // a deliberately large instance whose observers are expensive
	// argument-slice aliasing probes (C16): each builds a NEW container from /
	// adds a caller-owned slice and returns the container plus a function that
	// scribbles over the caller's slice.
	SliceArgs []func(c *core.Ctx) (target *Dyn, scribble func())
	// returned-slice aliasing probes (C16), typed so that they touch the very
	// slice the container returned.
	Scribblers []func() string        // take Values()/Keys(), overwrite it and append within its capacity; returns which slice
	Snapshots  []func() func() string // take Values()/Keys() and a deep copy now; the returned func later reports a difference
	SortedBy   func(cmpIdx int) (name string, got []any, sortedOK bool, isPerm bool)
	// JSON denotation and document generation (C11, C12)
	Denote func(data []byte) (elems []any, ok bool) // elements / pairs in the order PutAny must insert them
	GenDoc func(r *core.R, n int, dupKeys, dupVals bool) []byte
	Wide   bool // built over a domain of hundreds of distinct elements
	// peak-then-drain histories (shrink policies, deferred compaction): insert
	// one element from the wide generator / remove one previously inserted
	// element, without reading the container
	PutWide    func(r *core.R) any
	RemoveOne  func(v any)
	TotalOrder bool // the comparator(s) in use distinguish all elements of the domain (no ties between distinct elements)
}

// sliceProbes builds the C16 probes for one slice-returning observer.
func sliceProbes[T comparable](dy *Dyn, name string, get func() []T, junk T) {
	dy.Scribblers = append(dy.Scribblers, func() string {
		s := get()
		for i := range s {
			s[i] = junk
		}
		s = s[:0]
		for len(s) < cap(s) {
			s = append(s, junk) // append within the spare capacity of the returned slice
		}
		return name
	})
	dy.Snapshots = append(dy.Snapshots, func() func() string {
		s := get()
		// the caller owns what it got, spare capacity included: it appends to the
		// slice (also to an empty one) and expects to find its own values there later
		for len(s) < cap(s) {
			s = append(s, junk)
		}
		cp := append([]T(nil), s...)
		return func() string {
			if !eqSlices(s, cp) {
				return fmt.Sprintf("%s returned earlier (and appended to within its capacity by the caller) was %s and is now %s", name, short(cp), short(s))
			}
			return ""
		}
	})
}

// sortedProbe builds the GetSortedValuesFunc probe (and GetSortedValues for
// the natural order, through the typed helper).
func sortedProbe[T comparable](dy *Dyn, cont containers.Container[T], d *Dom[T]) {
	dy.SortedBy = func(ci int) (string, []any, bool, bool) {
		before := cont.Values()
		var got []T
		name := "GetSortedValues"
		f := d.Cmps[0].F
		if ci < 0 {
			got = getSortedNatural(cont)
		} else {
			name = "GetSortedValuesFunc(" + d.Cmps[ci%len(d.Cmps)].Name + ")"
			f = d.Cmps[ci%len(d.Cmps)].F
			got = containers.GetSortedValuesFunc[T](cont, f)
		}
		ok := true
		for i := 1; i < len(got); i++ {
			if f(got[i-1], got[i]) > 0 {
				ok = false
			}
		}
		return name, toAny(got), ok, sameMultiset(got, before)
	}
}

func getSortedNatural[T comparable](cont containers.Container[T]) []T {
	switch x := any(cont).(type) {
	case containers.Container[int]:
		return any(containers.GetSortedValues[int](x)).([]T)
	case containers.Container[string]:
		return any(containers.GetSortedValues[string](x)).([]T)
	case containers.Container[J]: // not cmp.Ordered: GetSortedValues does not apply, use the Func variant
		return any(containers.GetSortedValuesFunc[J](x, jCmp)).([]T)
	case containers.Container[*PS]:
		return any(containers.GetSortedValuesFunc[*PS](x, psCmp)).([]T)
	case containers.Container[float64]:
		return any(containers.GetSortedValues[float64](x)).([]T)
	}
	panic("GetSortedValues: unsupported element type")
}

type dynContainer interface {
	Empty() bool
	Size() int
	Clear()
	String() string
}

func toAny[T any](vs []T) []any {
	out := make([]any, len(vs))
	for i, v := range vs {
		out[i] = v
	}
	return out
}

func fromAny[T any](vs []any) []T {
	out := make([]T, len(vs))
	for i, v := range vs {
		out[i] = v.(T)
	}
	return out
}

// Obs is a snapshot of every observer of the Container interface (plus Keys
// and JSON), in a canonical form: for containers whose enumeration order is
// not defined the slices are sorted by their rendering.
type Obs struct {
	Size   int
	Empty  bool
	Values []string
	Keys   []string
	Pairs  []string // maps: "key=value" for every key (sorted when unordered)
	JSON   string
}

func render(v any) string { return fmt.Sprintf("%#v", v) }

func (d *Dyn) Observe(withJSON bool) Obs {
	o := Obs{Size: d.C.Size(), Empty: d.C.Empty()}
	for _, v := range d.Values() {
		o.Values = append(o.Values, render(v))
	}
	if d.Keys != nil {
		for _, k := range d.Keys() {
			o.Keys = append(o.Keys, render(k))
			v, ok := d.Get(k)
			o.Pairs = append(o.Pairs, fmt.Sprintf("%s=%s/%v", render(k), render(v), ok))
		}
	}
	if !d.Ordered {
		sort.Strings(o.Values)
		sort.Strings(o.Keys)
		sort.Strings(o.Pairs)
	}
	if withJSON {
		b, err := d.JSON.ToJSON()
		if err != nil {
			o.JSON = "error: " + err.Error()
		} else if d.Ordered {
			o.JSON = string(b)
		} else {
			o.JSON = canonJSON(b)
		}
	}
	return o
}

func (o Obs) Diff(p Obs) string {
	switch {
	case o.Size != p.Size:
		return fmt.Sprintf("Size %d vs %d", o.Size, p.Size)
	case o.Empty != p.Empty:
		return fmt.Sprintf("Empty %v vs %v", o.Empty, p.Empty)
	case !eqSlices(o.Values, p.Values):
		return fmt.Sprintf("Values %s vs %s", short(o.Values), short(p.Values))
	case !eqSlices(o.Keys, p.Keys):
		return fmt.Sprintf("Keys %s vs %s", short(o.Keys), short(p.Keys))
	case !eqSlices(o.Pairs, p.Pairs):
		return fmt.Sprintf("pairs %s vs %s", short(o.Pairs), short(p.Pairs))
	case o.JSON != p.JSON:
		return fmt.Sprintf("ToJSON %s vs %s", o.JSON, p.JSON)
	}
	return ""
}

func (o Obs) Hash() uint64 {
	h := core.Mix(uint64(o.Size))
	for _, s := range o.Values {
		h = core.Mix(h, core.HashString(s))
	}
	for _, s := range o.Pairs {
		h = core.Mix(h, core.HashString(s))
	}
	return h
}

var dynKinds = []string{"ArrayList", "SinglyLinkedList", "DoublyLinkedList", "HashSet", "TreeSet", "LinkedHashSet", "ArrayStack", "LinkedListStack",
	"ArrayQueue", "LinkedListQueue", "CircularBuffer", "PriorityQueue", "HashMap", "TreeMap", "LinkedHashMap", "HashBidiMap", "TreeBidiMap",
	"RedBlackTree", "AVLTree", "BTree", "BinaryHeap"}

func isKV(kind string) bool {
	switch kind {
	case "HashMap", "TreeMap", "LinkedHashMap", "HashBidiMap", "TreeBidiMap", "RedBlackTree", "AVLTree", "BTree":
		return true
	}
	return false
}

// dynCfg is a container configuration (drawn once, reused by Fresh).
type dynCfg struct {
	cmp   int // comparator index in the domain's family
	vcmp  int
	order int
	cap   int
}

// drawCfg draws a configuration; with total set only comparators that
// distinguish all elements (natural, reversed) are used.
func drawCfg(r *core.R, total bool) dynCfg {
	natural := false
	cfg := dynCfg{cmp: r.Intn(4), vcmp: r.Intn(4), order: btreeOrders[r.Intn(len(btreeOrders))], cap: ringCaps[r.Intn(len(ringCaps))]}
	if r.Bool() {
		cfg.cap = r.Range(1, 9)
		cfg.order = btreeOrders[r.Intn(4)]
	}
	if natural {
		cfg.cmp, cfg.vcmp = 0, 0
	}
	if total {
		cfg.cmp, cfg.vcmp = []int{0, 1, 3}[r.Intn(3)], []int{0, 1, 3}[r.Intn(3)]
	}
	return cfg
}

// NewDyn constructs container `kind` over element domain d (value
// containers) or key domain d and value domain dv (key-value containers).
func NewDyn[T comparable, V comparable](kind string, d *Dom[T], dv *Dom[V], cfg dynCfg) *Dyn {
	dy := newDyn(kind, d, dv, cfg)
	dy.TotalOrder = cfg.cmp != 2 && cfg.vcmp != 2
	attachReads(dy, d, dv, cfg)
	return dy
}

func newDyn[T comparable, V comparable](kind string, d *Dom[T], dv *Dom[V], cfg dynCfg) *Dyn {
	fresh := func() *Dyn { return NewDyn(kind, d, dv, cfg) }
	cm := d.Cmps[cfg.cmp]
	switch kind {
	case "ArrayList":
		l := arraylist.New[T]()
		return dynFromList(kind, l, nil, l, d, fresh, func(vs ...T) *Dyn { x := arraylist.New[T](vs...); return dynFromList(kind, x, nil, x, d, nil, nil) })
	case "SinglyLinkedList":
		l := singlylinkedlist.New[T]()
		return dynFromList(kind, l, l, l, d, fresh, func(vs ...T) *Dyn {
			x := singlylinkedlist.New[T](vs...)
			return dynFromList(kind, x, x, x, d, nil, nil)
		})
	case "DoublyLinkedList":
		l := doublylinkedlist.New[T]()
		return dynFromList(kind, l, l, l, d, fresh, func(vs ...T) *Dyn {
			x := doublylinkedlist.New[T](vs...)
			return dynFromList(kind, x, x, x, d, nil, nil)
		})
	case "HashSet":
		s := hashset.New[T]()
		return dynFromSet(kind, s, s, d, "", false, fresh, func(vs ...T) *Dyn { x := hashset.New[T](vs...); return dynFromSet(kind, x, x, d, "", false, nil, nil) })
	case "TreeSet":
		s := treeset.NewWith[T](cm.F)
		return dynFromSet(kind, s, s, d, "cmp="+cm.Name, true, fresh, func(vs ...T) *Dyn {
			x := treeset.NewWith[T](cm.F, vs...)
			return dynFromSet(kind, x, x, d, "cmp="+cm.Name, true, nil, nil)
		})
	case "LinkedHashSet":
		s := linkedhashset.New[T]()
		return dynFromSet(kind, s, s, d, "", true, fresh, func(vs ...T) *Dyn {
			x := linkedhashset.New[T](vs...)
			return dynFromSet(kind, x, x, d, "", true, nil, nil)
		})
	case "ArrayStack":
		s := arraystack.New[T]()
		return dynFromStack(kind, s, s, d, fresh)
	case "LinkedListStack":
		s := linkedliststack.New[T]()
		return dynFromStack(kind, s, s, d, fresh)
	case "ArrayQueue":
		q := arrayqueue.New[T]()
		return dynFromQueue(kind, q, q, d, "", 0, fresh)
	case "LinkedListQueue":
		q := linkedlistqueue.New[T]()
		return dynFromQueue(kind, q, q, d, "", 0, fresh)
	case "CircularBuffer":
		q := circularbuffer.New[T](cfg.cap)
		return dynFromQueue(kind, q, q, d, fmt.Sprintf("cap=%d", cfg.cap), cfg.cap, fresh)
	case "PriorityQueue":
		q := priorityqueue.NewWith[T](cm.F)
		return dynFromQueue(kind, q, q, d, "cmp="+cm.Name, 0, fresh)
	case "BinaryHeap":
		h := binaryheap.NewWith[T](cm.F)
		return dynFromHeap(kind, h, d, "cmp="+cm.Name, fresh)
	case "HashMap":
		m := hashmap.New[T, V]()
		return dynFromMap(kind, "map", m, m, d, dv, "", false, nil, fresh)
	case "TreeMap":
		m := treemap.NewWith[T, V](cm.F)
		return dynFromMap(kind, "map", m, m, d, dv, "cmp="+cm.Name, true, nil, fresh)
	case "LinkedHashMap":
		m := linkedhashmap.New[T, V]()
		return dynFromMap(kind, "map", m, m, d, dv, "", true, nil, fresh)
	case "HashBidiMap":
		m := hashbidimap.New[T, V]()
		return dynFromMap(kind, "map", m, m, d, dv, "", false, m.GetKey, fresh)
	case "TreeBidiMap":
		vc := dv.Cmps[cfg.vcmp]
		m := treebidimap.NewWith[T, V](cm.F, vc.F)
		return dynFromMap(kind, "map", m, m, d, dv, "cmp="+cm.Name+"/"+vc.Name, true, m.GetKey, fresh)
	case "RedBlackTree":
		m := redblacktree.NewWith[T, V](cm.F)
		return dynFromMap(kind, "tree", m, m, d, dv, "cmp="+cm.Name, true, nil, fresh)
	case "AVLTree":
		m := avltree.NewWith[T, V](cm.F)
		return dynFromMap(kind, "tree", m, m, d, dv, "cmp="+cm.Name, true, nil, fresh)
	case "BTree":
		m := btree.NewWith[T, V](cfg.order, cm.F)
		return dynFromMap(kind, "tree", m, m, d, dv, fmt.Sprintf("order=%d,cmp=%s", cfg.order, cm.Name), true, nil, fresh)
	}
	panic("unknown kind " + kind)
}

func dynFromList[T comparable](kind string, l listAPI[T], p pender[T], js jsonAPI, d *Dom[T], fresh func() *Dyn, ctor func(vs ...T) *Dyn) *Dyn {
	dy := &Dyn{Kind: kind, Family: "list", Elem: d.Name, Raw: l, C: l, JSON: js, Ordered: true, Fresh: fresh, JSONArr: true}
	dy.Values = func() []any { return toAny(l.Values()) }
	sliceProbes(dy, "Values()", l.Values, d.Probe[0])
	sortedProbe[T](dy, l, d)
	dy.Denote = denoteArr[T]
	dy.GenDoc = func(r *core.R, n int, _, _ bool) []byte { return genArrDoc(r, d, n) }
	dy.ElemOf = func(r *core.R) any { return d.Val(r) }
	dy.PutAny = func(vs []any) { l.Add(fromAny[T](vs)...) }
	dy.Grow = func(c *core.Ctx) { v := d.Vals(c.R, c.R.Range(1, 3)); c.Begin(kind, "Add", v); l.Add(v...) }
	dy.PutWide = func(r *core.R) any { v := d.Wide(r); l.Add(v); return v }
	dy.RemoveOne = func(any) { l.Remove(0) }
	dy.Mutate = func(c *core.Ctx) {
		r := c.R
		n := l.Size()
		switch r.Intn(9) {
		case 0, 1:
			v := d.Vals(r, varCount(r))
			c.Begin(kind, "Add", v)
			l.Add(v...)
		case 2:
			i, v := hostileIndex(r, n), d.Vals(r, varCount(r))
			c.Begin(kind, "Insert", i, v)
			l.Insert(i, v...)
		case 3, 4:
			i := hostileIndex(r, n)
			c.Begin(kind, "Remove", i)
			l.Remove(i)
		case 5:
			i, v := hostileIndex(r, n), d.Val(r)
			c.Begin(kind, "Set", i, v)
			l.Set(i, v)
		case 6:
			i, j := hostileIndex(r, n), hostileIndex(r, n)
			c.Begin(kind, "Swap", i, j)
			l.Swap(i, j)
		case 7:
			cm := d.Cmps[r.Intn(len(d.Cmps))]
			c.Begin(kind, "Sort", cm.Name)
			l.Sort(cm.F)
		default:
			if p != nil {
				v := d.Vals(r, varCount(r))
				c.Begin(kind, "Prepend", v)
				p.Prepend(v...)
			} else {
				v := d.Vals(r, 1)
				c.Begin(kind, "Insert", 0, v)
				l.Insert(0, v...)
			}
		}
	}
	type walker interface{ Each(func(int, T)) }
	dy.Walk = func() []any {
		var out []any
		l.(walker).Each(func(i int, v T) { out = append(out, [2]any{i, v}) })
		return out
	}
	if ctor != nil {
		mk := func(name string, apply func(target listAPI[T], tp pender[T], s []T)) func(c *core.Ctx) (*Dyn, func()) {
			return func(c *core.Ctx) (*Dyn, func()) {
				s := spareSlice(d.Vals(c.R, c.R.Range(1, 6)))
				t := fresh()
				tl := t.Raw.(listAPI[T])
				tp, _ := t.Raw.(pender[T])
				c.Begin(kind, name+"(caller-slice...)", s)
				apply(tl, tp, s)
				return t, func() { scribble(s, d.Probe[0]) }
			}
		}
		dy.SliceArgs = append(dy.SliceArgs,
			func(c *core.Ctx) (*Dyn, func()) {
				s := spareSlice(d.Vals(c.R, c.R.Range(1, 6)))
				c.Begin(kind, "New(caller-slice...)", s)
				t := ctor(s...)
				return t, func() { scribble(s, d.Probe[0]) }
			},
			mk("Add", func(tl listAPI[T], _ pender[T], s []T) { tl.Add(s...) }),
			mk("Insert", func(tl listAPI[T], _ pender[T], s []T) { tl.Add(d.Alpha[0]); tl.Insert(0, s...) }),
			mk("Insert-at-size", func(tl listAPI[T], _ pender[T], s []T) { tl.Insert(0, s...) }),
		)
		if p != nil {
			dy.SliceArgs = append(dy.SliceArgs,
				mk("Append", func(_ listAPI[T], tp pender[T], s []T) { tp.Append(s...) }),
				mk("Prepend", func(_ listAPI[T], tp pender[T], s []T) { tp.Prepend(s...) }),
			)
		}
	}
	return dy
}

// spareSlice returns s with spare capacity (so append-within-capacity by the
// callee or the caller is possible).
func spareSlice[T any](s []T) []T {
	out := make([]T, len(s), len(s)+8)
	copy(out, s)
	return out
}

// scribble overwrites every element of s and the spare capacity behind it.
func scribble[T any](s []T, junk T) {
	for i := range s {
		s[i] = junk
	}
	full := s[:cap(s)]
	for i := len(s); i < len(full); i++ {
		full[i] = junk
	}
}

func dynFromSet[T comparable](kind string, s sets.Set[T], js jsonAPI, d *Dom[T], config string, ordered bool, fresh func() *Dyn, ctor func(vs ...T) *Dyn) *Dyn {
	dy := &Dyn{Kind: kind, Family: "set", Elem: d.Name, Config: config, Raw: s, C: s, JSON: js, Ordered: ordered, Fresh: fresh, JSONArr: true}
	dy.Values = func() []any { return toAny(s.Values()) }
	sliceProbes(dy, "Values()", s.Values, d.Probe[0])
	sortedProbe[T](dy, s, d)
	dy.Denote = denoteArr[T]
	dy.GenDoc = func(r *core.R, n int, _, _ bool) []byte { return genArrDoc(r, d, n) }
	dy.ElemOf = func(r *core.R) any { return d.Val(r) }
	dy.PutAny = func(vs []any) { s.Add(fromAny[T](vs)...) }
	dy.Grow = func(c *core.Ctx) { v := d.Vals(c.R, c.R.Range(1, 3)); c.Begin(kind, "Add", v); s.Add(v...) }
	dy.PutWide = func(r *core.R) any { v := d.Wide(r); s.Add(v); return v }
	dy.RemoveOne = func(v any) { s.Remove(v.(T)) }
	dy.Mutate = func(c *core.Ctx) {
		r := c.R
		v := d.Vals(r, varCount(r))
		if r.Intn(5) < 3 {
			c.Begin(kind, "Add", v)
			s.Add(v...)
		} else {
			c.Begin(kind, "Remove", v)
			s.Remove(v...)
		}
	}
	type walker interface{ Each(func(int, T)) }
	if w, ok := s.(walker); ok {
		dy.Walk = func() []any {
			var out []any
			w.Each(func(i int, v T) { out = append(out, [2]any{i, v}) })
			return out
		}
	}
	if ctor != nil {
		dy.SliceArgs = append(dy.SliceArgs,
			func(c *core.Ctx) (*Dyn, func()) {
				sl := spareSlice(d.Vals(c.R, c.R.Range(1, 6)))
				c.Begin(kind, "New(caller-slice...)", sl)
				t := ctor(sl...)
				return t, func() { scribble(sl, d.Probe[0]) }
			},
			func(c *core.Ctx) (*Dyn, func()) {
				sl := spareSlice(d.Vals(c.R, c.R.Range(1, 6)))
				t := fresh()
				c.Begin(kind, "Add(caller-slice...)", sl)
				t.Raw.(sets.Set[T]).Add(sl...)
				return t, func() { scribble(sl, d.Probe[0]) }
			})
	}
	return dy
}

func dynFromStack[T comparable](kind string, s stacks.Stack[T], js jsonAPI, d *Dom[T], fresh func() *Dyn) *Dyn {
	dy := &Dyn{Kind: kind, Family: "stack", Elem: d.Name, Raw: s, C: s, JSON: js, Ordered: true, Fresh: fresh, JSONArr: true}
	dy.Values = func() []any { return toAny(s.Values()) }
	sliceProbes(dy, "Values()", s.Values, d.Probe[0])
	sortedProbe[T](dy, s, d)
	dy.GenDoc = func(r *core.R, n int, _, _ bool) []byte { return genArrDoc(r, d, n) }
	dy.Denote = denoteArr[T]
	if kind == "LinkedListStack" {
		// the linked stack reads an array top-to-bottom: push in reverse
		dy.Denote = func(data []byte) ([]any, bool) {
			e, ok := denoteArr[T](data)
			for i, j := 0, len(e)-1; i < j; i, j = i+1, j-1 {
				e[i], e[j] = e[j], e[i]
			}
			return e, ok
		}
	}
	dy.ElemOf = func(r *core.R) any { return d.Val(r) }
	dy.PutAny = func(vs []any) {
		for _, v := range vs {
			s.Push(v.(T))
		}
	}
	dy.Take = func() (any, bool) { return s.Pop() }
	dy.PutWide = func(r *core.R) any { v := d.Wide(r); s.Push(v); return v }
	dy.RemoveOne = func(any) { s.Pop() }
	dy.Grow = func(c *core.Ctx) { v := d.Val(c.R); c.Begin(kind, "Push", v); s.Push(v) }
	dy.Mutate = func(c *core.Ctx) {
		if c.R.Intn(5) < 3 {
			dy.Grow(c)
		} else {
			c.Begin(kind, "Pop")
			s.Pop()
		}
	}
	dy.Walk = stackQueueWalk[T](s)
	return dy
}

// stackQueueWalk walks the container's own iterator (obtained through the
// small interfaces below) and returns (index, value) pairs.
func stackQueueWalk[T comparable](raw any) func() []any {
	type it interface {
		Next() bool
		Index() int
		Value() T
	}
	return func() []any {
		var i it
		switch x := raw.(type) {
		case *arraystack.Stack[T]:
			i = x.Iterator()
		case *linkedliststack.Stack[T]:
			i = x.Iterator()
		case *arrayqueue.Queue[T]:
			i = x.Iterator()
		case *linkedlistqueue.Queue[T]:
			i = x.Iterator()
		case *circularbuffer.Queue[T]:
			i = x.Iterator()
		case *priorityqueue.Queue[T]:
			i = x.Iterator()
		case *binaryheap.Heap[T]:
			i = x.Iterator()
		default:
			return nil
		}
		var out []any
		for i.Next() {
			out = append(out, [2]any{i.Index(), i.Value()})
		}
		return out
	}
}

func dynFromQueue[T comparable](kind string, q queues.Queue[T], js jsonAPI, d *Dom[T], config string, capacity int, fresh func() *Dyn) *Dyn {
	dy := &Dyn{Kind: kind, Family: "queue", Elem: d.Name, Config: config, Raw: q, C: q, JSON: js, Ordered: true, Fresh: fresh, Cap: capacity, JSONArr: true}
	dy.Values = func() []any { return toAny(q.Values()) }
	sliceProbes(dy, "Values()", q.Values, d.Probe[0])
	sortedProbe[T](dy, q, d)
	dy.Denote = denoteArr[T]
	dy.GenDoc = func(r *core.R, n int, _, _ bool) []byte { return genArrDoc(r, d, n) }
	dy.ElemOf = func(r *core.R) any { return d.Val(r) }
	dy.PutAny = func(vs []any) {
		for _, v := range vs {
			q.Enqueue(v.(T))
		}
	}
	dy.Take = func() (any, bool) { return q.Dequeue() }
	dy.PutWide = func(r *core.R) any { v := d.Wide(r); q.Enqueue(v); return v }
	dy.RemoveOne = func(any) { q.Dequeue() }
	dy.Grow = func(c *core.Ctx) { v := d.Val(c.R); c.Begin(kind, "Enqueue", v); q.Enqueue(v) }
	dy.Mutate = func(c *core.Ctx) {
		if c.R.Intn(5) < 3 {
			dy.Grow(c)
		} else {
			c.Begin(kind, "Dequeue")
			q.Dequeue()
		}
	}
	dy.Walk = stackQueueWalk[T](q)
	return dy
}

func dynFromHeap[T comparable](kind string, h *binaryheap.Heap[T], d *Dom[T], config string, fresh func() *Dyn) *Dyn {
	dy := &Dyn{Kind: kind, Family: "heap", Elem: d.Name, Config: config, Raw: h, C: h, JSON: h, Ordered: true, Fresh: fresh, JSONArr: true}
	dy.Values = func() []any { return toAny(h.Values()) }
	sliceProbes(dy, "Values()", h.Values, d.Probe[0])
	sortedProbe[T](dy, h, d)
	dy.Denote = denoteArr[T]
	dy.GenDoc = func(r *core.R, n int, _, _ bool) []byte { return genArrDoc(r, d, n) }
	dy.ElemOf = func(r *core.R) any { return d.Val(r) }
	dy.PutAny = func(vs []any) {
		for _, v := range vs {
			h.Push(v.(T))
		}
	}
	dy.Take = func() (any, bool) { return h.Pop() }
	dy.PutWide = func(r *core.R) any { v := d.Wide(r); h.Push(v); return v }
	dy.RemoveOne = func(any) { h.Pop() }
	dy.Grow = func(c *core.Ctx) { v := d.Vals(c.R, c.R.Range(1, 3)); c.Begin(kind, "Push", v); h.Push(v...) }
	dy.Mutate = func(c *core.Ctx) {
		if c.R.Intn(5) < 3 {
			v := d.Vals(c.R, varCount(c.R))
			c.Begin(kind, "Push", v)
			h.Push(v...)
		} else {
			c.Begin(kind, "Pop")
			h.Pop()
		}
	}
	dy.Walk = stackQueueWalk[T](h)
	dy.SliceArgs = append(dy.SliceArgs, func(c *core.Ctx) (*Dyn, func()) {
		sl := spareSlice(d.Vals(c.R, c.R.Range(2, 6)))
		t := fresh()
		c.Begin(kind, "Push(caller-slice...)", sl)
		t.Raw.(*binaryheap.Heap[T]).Push(sl...)
		return t, func() { scribble(sl, d.Probe[0]) }
	})
	return dy
}

func dynFromMap[K comparable, V comparable](kind, family string, m maps.Map[K, V], js jsonAPI, dk *Dom[K], dv *Dom[V], config string, ordered bool, getKey func(V) (K, bool), fresh func() *Dyn) *Dyn {
	dy := &Dyn{Kind: kind, Family: family, Elem: dk.Name + ":" + dv.Name, Config: config, Raw: m, C: m, JSON: js, Ordered: ordered, Fresh: fresh}
	dy.Values = func() []any { return toAny(m.Values()) }
	dy.Keys = func() []any { return toAny(m.Keys()) }
	sliceProbes(dy, "Values()", m.Values, dv.Probe[0])
	sliceProbes(dy, "Keys()", m.Keys, dk.Probe[0])
	sortedProbe[V](dy, m, dv)
	dy.Denote = denoteObj[K, V]
	dy.GenDoc = func(r *core.R, n int, dupKeys, dupVals bool) []byte { return genObjDoc(r, dk, dv, n, dupKeys, dupVals) }
	dy.Get = func(k any) (any, bool) { return m.Get(k.(K)) }
	if getKey != nil {
		dy.GetKey = func(v any) (any, bool) { return getKey(v.(V)) }
	}
	dy.PutAny = func(vs []any) {
		for _, p := range vs {
			kv := p.([2]any)
			m.Put(kv[0].(K), kv[1].(V))
		}
	}
	dy.ElemOf = func(r *core.R) any { return [2]any{dk.Val(r), dv.Val(r)} }
	dy.Grow = func(c *core.Ctx) { k, v := dk.Val(c.R), dv.Val(c.R); c.Begin(kind, "Put", k, v); m.Put(k, v) }
	dy.PutWide = func(r *core.R) any { k, v := dk.Wide(r), dv.Wide(r); m.Put(k, v); return k }
	dy.RemoveOne = func(k any) { m.Remove(k.(K)) }
	dy.Mutate = func(c *core.Ctx) {
		if c.R.Intn(5) < 3 {
			dy.Grow(c)
		} else {
			k := dk.AnyVal(c.R)
			c.Begin(kind, "Remove", k)
			m.Remove(k)
		}
	}
	type walker interface{ Each(func(K, V)) }
	if w, ok := m.(walker); ok {
		dy.Walk = func() []any {
			var out []any
			w.Each(func(k K, v V) { out = append(out, [2]any{k, v}) })
			return out
		}
	} else if ordered {
		dy.Walk = func() []any {
			var out []any
			ks, vs := m.Keys(), m.Values()
			for i := range ks {
				if i < len(vs) {
					out = append(out, [2]any{ks[i], vs[i]})
				}
			}
			return out
		}
	}
	return dy
}

// PeakDrain grows the container to about `peak` elements from the wide
// generator and then removes about 85% of what was inserted, without reading
// the container: the history behind shrink policies, tombstone compaction and
// "rebuild when mostly empty" heuristics.
func (d *Dyn) PeakDrain(c *core.Ctx, peak int) {
	c.Begin(d.Kind, "peak-then-drain", peak)
	ins := make([]any, 0, peak)
	for i := 0; i < peak; i++ {
		ins = append(ins, d.PutWide(c.R))
	}
	for _, v := range ins[:peak*85/100] {
		d.RemoveOne(v)
	}
	c.Count("dyn:peak-then-drain", 1)
}

// build drives a Dyn into a state reached by a random history of about n
// mutating calls.
func (d *Dyn) build(c *core.Ctx, n int) {
	if n > 0 && c.R.Chance(1, 40) && d.Kind != "BinaryHeap" && d.Kind != "PriorityQueue" {
		d.PeakDrain(c, c.R.Range(1100, 2600))
	}
	if d.Wide && n > 0 {
		n = n*20 + 200 // hundreds to a couple of thousand calls
	}
	for i := 0; i < n; i++ {
		if c.R.Intn(4) == 0 {
			d.Mutate(c)
		} else {
			d.Grow(c)
		}
	}
}

// newDynRandom picks the element types for a kind: value containers over int
// or string; key-value containers over the four key/value type pairs.
func newDynRandom(c *core.Ctx, kind string, total bool) *Dyn {
	r := c.R
	cfg := drawCfg(r, total)
	var d *Dyn
	if r.Chance(1, 25) && kind != "BinaryHeap" && kind != "PriorityQueue" { // (the heap's Values() is quadratic in the level width)
		// wide domains: with a few hundred distinct keys/elements the sets,
		// maps and trees actually get large when built by a long history
		c.Count("dyn:wide-domain", 1)
		if isKV(kind) {
			d = NewDyn(kind, IntDom(r.Range(150, 500)), IntDom(r.Range(150, 500)), cfg)
		} else {
			d = NewDyn(kind, IntDom(r.Range(150, 500)), IntDom(4), cfg)
		}
		d.Wide = true
		c.Begin(kind, "New", d.Elem, d.Config, "wide")
		return d
	}
	if r.Chance(1, 7) {
		// struct elements / values with an omit-when-empty field
		if isKV(kind) {
			if r.Bool() {
				d = NewDyn(kind, StrDom(r.Range(4, 14)), JDom(r.Range(4, 12)), cfg)
			} else {
				d = NewDyn(kind, IntDom(r.Range(4, 10)), JDom(r.Range(4, 12)), cfg)
			}
		} else {
			d = NewDyn(kind, JDom(r.Range(4, 12)), IntDom(4), cfg)
		}
		c.Begin(kind, "New", d.Elem, d.Config)
		return d
	}
	if !isKV(kind) && c.IsProp("C11") && r.Chance(1, 12) {
		// elements whose JSON hooks sit on the pointer receiver (see PJ); value
		// containers only: Go's own json.Marshal of a map skips such hooks
		d = NewDyn(kind, PJDom(r.Range(4, 12)), IntDom(4), cfg)
		c.Count("dyn:pointer-receiver-json-elements", 1)
		c.Begin(kind, "New", d.Elem, d.Config)
		return d
	}
	if (c.IsProp("C11") || c.IsProp("C12")) && r.Chance(1, 10) {
		// a defined string type as key / element, or `any` as element / value type
		// (`any` only in C11: in a hostile document every element is a valid `any`,
		// uncomparable slices and maps included, which no container state denotes)
		if r.Bool() || !c.IsProp("C11") {
			if isKV(kind) {
				d = NewDyn(kind, SIDDom(r.Range(4, 14)), IntDom(r.Range(4, 10)), cfg)
			} else {
				d = NewDyn(kind, SIDDom(r.Range(4, 23)), IntDom(4), cfg)
			}
			c.Count("dyn:defined-string-type", 1)
		} else {
			if isKV(kind) {
				d = NewDyn(kind, StrDom(r.Range(4, 14)), AnyDom(r.Range(4, 16)), cfg)
			} else {
				d = NewDyn(kind, AnyDom(r.Range(4, 16)), IntDom(4), cfg)
			}
			c.Count("dyn:interface-typed-elements", 1)
		}
		c.Begin(kind, "New", d.Elem, d.Config)
		return d
	}
	if isKV(kind) && c.IsProp("C12") && r.Chance(1, 12) {
		// keys that unmarshal themselves from text (see TK). Only where the
		// statement is about what an input denotes: C11 is stated for string and
		// integer keys, and the tree maps' ToJSON does write such keys by kind.
		d = NewDyn(kind, TKDom(r.Range(4, 14)), IntDom(r.Range(4, 10)), cfg)
		c.Count("dyn:text-marshaler-keys", 1)
		c.Begin(kind, "New", d.Elem, d.Config)
		return d
	}
	if isKV(kind) {
		switch r.Intn(4) {
		case 0:
			d = NewDyn(kind, IntDom(r.Range(4, 10)), IntDom(r.Range(4, 10)), cfg)
		case 1:
			d = NewDyn(kind, StrDom(r.Range(4, 14)), IntDom(r.Range(4, 10)), cfg)
		case 2:
			d = NewDyn(kind, StrDom(r.Range(4, 14)), StrDom(r.Range(4, 23)), cfg)
		default:
			d = NewDyn(kind, IntDom(r.Range(4, 10)), StrDom(r.Range(4, 23)), cfg)
		}
	} else if r.Bool() {
		d = NewDyn(kind, IntDom(r.Range(4, 10)), IntDom(4), cfg)
	} else {
		d = NewDyn(kind, StrDom(r.Range(4, 23)), IntDom(4), cfg)
	}
	c.Begin(kind, "New", d.Elem, d.Config)
	return d
}
