package props

import (
	"cmp"
	"godsverif/core"

	"github.com/emirpasic/gods/v2/containers"
	"github.com/emirpasic/gods/v2/lists"
	"github.com/emirpasic/gods/v2/lists/arraylist"
	"github.com/emirpasic/gods/v2/lists/doublylinkedlist"
	"github.com/emirpasic/gods/v2/lists/singlylinkedlist"
	"github.com/emirpasic/gods/v2/maps"
	"github.com/emirpasic/gods/v2/maps/linkedhashmap"
	"github.com/emirpasic/gods/v2/maps/treebidimap"
	"github.com/emirpasic/gods/v2/maps/treemap"
	"github.com/emirpasic/gods/v2/sets/linkedhashset"
	"github.com/emirpasic/gods/v2/sets/treeset"
)

type idxPair[T any] struct {
	I int
	V T
}

// enumIdx adapts one index-enumerable container kind.
type enumIdx[T comparable] struct {
	kind  string
	C     containers.Container[T]
	E     containers.EnumerableWithIndex[T]
	raw   any
	iter  func() containers.IteratorWithIndex[T]
	sel   func(f func(int, T) bool) *enumIdx[T]
	mp    func(f func(int, T) T) *enumIdx[T]
	add   func(vs ...T)
	fresh func() *enumIdx[T] // same kind, same comparator, empty
	// mut applies in-place mutation number i (overwrite, swap, sort, remove,
	// insert, append - whatever the kind offers) drawn from the seed; the same
	// (i, seed) on two containers with equal content gives equal content.
	mut func(i int, seed uint64, d *Dom[T])
}

// listMut / setMut are the in-place mutators used by the independence probes.
func listMut[T comparable](l lists.List[T]) func(i int, seed uint64, d *Dom[T]) {
	return func(i int, seed uint64, d *Dom[T]) {
		r := core.NewR(seed)
		n := l.Size()
		switch i % 6 {
		case 0:
			l.Set(r.Range(0, max(n-1, 0)), d.Val(r))
		case 1:
			l.Swap(0, n-1)
		case 2:
			l.Sort(d.Cmps[1].F)
		case 3:
			l.Remove(r.Range(0, max(n-1, 0)))
		case 4:
			l.Insert(r.Range(0, n), d.Val(r))
		default:
			l.Add(d.Val(r), d.Val(r))
		}
	}
}

func setMut[T comparable](s interface {
	Values() []T
	Add(...T)
	Remove(...T)
}) func(i int, seed uint64, d *Dom[T]) {
	return func(i int, seed uint64, d *Dom[T]) {
		r := core.NewR(seed)
		if vs := s.Values(); i%2 == 0 && len(vs) > 0 {
			s.Remove(vs[r.Intn(len(vs))])
		} else {
			s.Add(d.AnyVal(r))
		}
	}
}

func wrapAL[T comparable](l *arraylist.List[T]) *enumIdx[T] {
	e := &enumIdx[T]{kind: "ArrayList", C: l, E: l, raw: l, add: l.Add, mut: listMut[T](l)}
	e.iter = func() containers.IteratorWithIndex[T] { return l.Iterator() }
	e.sel = func(f func(int, T) bool) *enumIdx[T] { return wrapAL(l.Select(f)) }
	e.mp = func(f func(int, T) T) *enumIdx[T] { return wrapAL(l.Map(f)) }
	e.fresh = func() *enumIdx[T] { return wrapAL(arraylist.New[T]()) }
	return e
}
func wrapSL[T comparable](l *singlylinkedlist.List[T]) *enumIdx[T] {
	e := &enumIdx[T]{kind: "SinglyLinkedList", C: l, E: l, raw: l, add: l.Add, mut: listMut[T](l)}
	e.iter = func() containers.IteratorWithIndex[T] { return l.Iterator() }
	e.sel = func(f func(int, T) bool) *enumIdx[T] { return wrapSL(l.Select(f)) }
	e.mp = func(f func(int, T) T) *enumIdx[T] { return wrapSL(l.Map(f)) }
	e.fresh = func() *enumIdx[T] { return wrapSL(singlylinkedlist.New[T]()) }
	return e
}
func wrapDL[T comparable](l *doublylinkedlist.List[T]) *enumIdx[T] {
	e := &enumIdx[T]{kind: "DoublyLinkedList", C: l, E: l, raw: l, add: l.Add, mut: listMut[T](l)}
	e.iter = func() containers.IteratorWithIndex[T] { it := l.Iterator(); return &it }
	e.sel = func(f func(int, T) bool) *enumIdx[T] { return wrapDL(l.Select(f)) }
	e.mp = func(f func(int, T) T) *enumIdx[T] { return wrapDL(l.Map(f)) }
	e.fresh = func() *enumIdx[T] { return wrapDL(doublylinkedlist.New[T]()) }
	return e
}
func wrapTS[T comparable](s *treeset.Set[T], cmp func(a, b T) int) *enumIdx[T] {
	e := &enumIdx[T]{kind: "TreeSet", C: s, E: s, raw: s, add: s.Add, mut: setMut[T](s)}
	e.iter = func() containers.IteratorWithIndex[T] { it := s.Iterator(); return &it }
	e.sel = func(f func(int, T) bool) *enumIdx[T] { return wrapTS(s.Select(f), cmp) }
	e.mp = func(f func(int, T) T) *enumIdx[T] { return wrapTS(s.Map(f), cmp) }
	e.fresh = func() *enumIdx[T] { return wrapTS(treeset.NewWith[T](cmp), cmp) }
	return e
}
func wrapLS[T comparable](s *linkedhashset.Set[T]) *enumIdx[T] {
	e := &enumIdx[T]{kind: "LinkedHashSet", C: s, E: s, raw: s, add: s.Add, mut: setMut[T](s)}
	e.iter = func() containers.IteratorWithIndex[T] { it := s.Iterator(); return &it }
	e.sel = func(f func(int, T) bool) *enumIdx[T] { return wrapLS(s.Select(f)) }
	e.mp = func(f func(int, T) T) *enumIdx[T] { return wrapLS(s.Map(f)) }
	e.fresh = func() *enumIdx[T] { return wrapLS(linkedhashset.New[T]()) }
	return e
}

func (e *enumIdx[T]) walk() []idxPair[T] {
	var out []idxPair[T]
	for it := e.iter(); it.Next(); {
		out = append(out, idxPair[T]{it.Index(), it.Value()})
	}
	return out
}

// idxFuncs: predicate and mapping families depending on index and value.
func idxPred[T comparable](kind, param int) func(int, T) bool {
	return func(i int, v T) bool {
		switch kind {
		case 0:
			return true
		case 1:
			return false
		case 2:
			return i%2 == param%2
		case 3:
			return hv(v)%3 == uint64(param%3)
		default:
			return i >= param
		}
	}
}

func runEnumIdx[T comparable](c *core.Ctx, e *enumIdx[T], d *Dom[T], mapf []func(int, T) T, mapNames []string) {
	r := c.R
	kind := e.kind
	w := e.walk()
	n := len(w)
	before := w
	assertUnchanged := func(op string) {
		after := e.walk()
		if len(after) != len(before) || e.C.Size() != len(before) {
			c.Fail("receiver-changed", op, "%s.%s changed its receiver: %d elements before, %d after", kind, op, len(before), len(after))
		}
		for i := range after {
			if after[i] != before[i] {
				c.Fail("receiver-changed", op, "%s.%s changed its receiver at position %d: %v -> %v", kind, op, i, before[i], after[i])
			}
		}
	}
	// In half of the cases the callbacks READ the receiver while the enumerable
	// call is still running (another enumerable call, an iterator walk, Size,
	// Values): pure, but re-entrant. An enumerable function that keeps its
	// traversal state in the container instead of on its own stack loses its
	// place.
	nested := r.Bool()
	ncalls := 0
	reenter := func() {
		ncalls++
		if !nested || ncalls%3 != 1 {
			return
		}
		switch ncalls / 3 % 4 {
		case 0:
			e.E.Any(func(int, T) bool { return false })
		case 1:
			e.E.Find(func(i int, _ T) bool { return i == 1 })
		case 2:
			for it := e.iter(); it.Next(); {
			}
		default:
			e.C.Size()
			e.C.Values()
		}
	}
	if nested {
		c.Count("obs:re-entrant-callbacks", 1)
	}
	// Each: exactly the iterator's pairs, in order, once each
	c.Begin(kind, "Each")
	var log []idxPair[T]
	e.E.Each(func(i int, v T) { reenter(); log = append(log, idxPair[T]{i, v}) })
	if len(log) != n {
		c.Fail("each", "count", "%s.Each made %d calls, the iterator yields %d elements", kind, len(log), n)
	}
	for i := range log {
		if log[i] != w[i] {
			c.Fail("each", "pair", "%s.Each call %d got (%d,%v), the iterator yields (%d,%v) there", kind, i, log[i].I, log[i].V, w[i].I, w[i].V)
		}
	}
	assertUnchanged("Each")
	c.Count("obs:Each", 1)
	for rep := 0; rep < 4; rep++ {
		pk, pp := r.Intn(5), r.Range(0, n)
		f := idxPred[T](pk, pp)
		exists, all, first := false, true, -1
		for j, p := range w {
			if f(p.I, p.V) {
				exists = true
				if first < 0 {
					first = j
				}
			} else {
				all = false
			}
		}
		pure := f
		f = func(i int, v T) bool { reenter(); return pure(i, v) }
		c.Begin(kind, "Any", pk, pp)
		if got := e.E.Any(f); got != exists {
			c.Fail("any", "", "%s.Any(pred %d/%d) = %v, exists over the iteration = %v (%v)", kind, pk, pp, got, exists, w)
		}
		c.Begin(kind, "All", pk, pp)
		if got := e.E.All(f); got != all {
			c.Fail("all", "", "%s.All(pred %d/%d) = %v, for-all over the iteration = %v (%v)", kind, pk, pp, got, all, w)
		}
		c.Begin(kind, "Find", pk, pp)
		gi, gv := e.E.Find(f)
		var zero T
		if first < 0 {
			if gi != -1 || gv != zero {
				c.Fail("find", "no-match", "%s.Find with no match = (%d,%v), want (-1, zero)", kind, gi, gv)
			}
			c.Count("obs:Find-no-match", 1)
		} else {
			if gi != w[first].I || gv != w[first].V {
				c.Fail("find", "first-match", "%s.Find(pred %d/%d) = (%d,%v), first match in iteration order is (%d,%v)", kind, pk, pp, gi, gv, w[first].I, w[first].V)
			}
			c.Count("obs:Find-match", 1)
		}
		assertUnchanged("Any/All/Find")
		// Select
		c.Begin(kind, "Select", pk, pp)
		res := e.sel(f)
		var want []T
		for _, p := range w {
			if pure(p.I, p.V) {
				want = append(want, p.V)
			}
		}
		rv := res.C.Values()
		if !eqSlices(rv, want) && !(len(rv) == 0 && len(want) == 0) {
			c.Fail("select", "content", "%s.Select(pred %d/%d) = %s, matching elements in original order are %s", kind, pk, pp, short(rv), short(want))
		}
		if res.raw == e.raw {
			c.Fail("select", "result-is-receiver", "%s.Select returned its receiver", kind)
		}
		assertUnchanged("Select")
		e.independent(c, "Select", res, want, d, before)
		c.Count("obs:Select", 1)
		// Map
		mi := r.Intn(len(mapf))
		c.Begin(kind, "Map", mapNames[mi])
		mres := e.mp(func(i int, v T) T { reenter(); return mapf[mi](i, v) })
		oracle := e.fresh()
		for _, p := range w {
			oracle.add(mapf[mi](p.I, p.V))
		}
		mv, ov := mres.C.Values(), oracle.C.Values()
		if !eqSlices(mv, ov) && !(len(mv) == 0 && len(ov) == 0) {
			c.Fail("map", "content", "%s.Map(%s) = %s, inserting the mapped elements in iteration order into a fresh %s gives %s", kind, mapNames[mi], short(mv), kind, short(ov))
		}
		if mres.raw == e.raw {
			c.Fail("map", "result-is-receiver", "%s.Map returned its receiver", kind)
		}
		assertUnchanged("Map")
		e.independent(c, "Map", mres, ov, d, before)
		c.Count("obs:Map", 1)
	}
	c.State(core.Mix(core.HashString(kind), uint64(n), hashVals(e.C.Values())))
	e.receiverToResult(c, d)
}

// independent: further inserts into the result behave as on a fresh
// container of the receiver's kind and comparator, and do not reach the
// receiver.
func (e *enumIdx[T]) independent(c *core.Ctx, op string, res *enumIdx[T], content []T, d *Dom[T], before []idxPair[T]) {
	r := c.R
	oracle := e.fresh()
	oracle.add(content...)
	// in-place mutations of the result (overwrite, swap, sort, remove, insert,
	// append) and further Adds: the result must behave like a fresh container
	// with the receiver's comparator, and nothing may reach the receiver
	for k := 0; k < 4; k++ {
		i, seed := r.Intn(6), r.U64()
		res.mut(i, seed, d)
		oracle.mut(i, seed, d)
		x := d.AnyVal(r)
		res.add(x)
		oracle.add(x)
		rv, ov := res.C.Values(), oracle.C.Values()
		if !eqSlices(rv, ov) {
			c.Fail(lower(op), "result-discipline", "%s.%s result after further in-place changes and Adds enumerates %s; a fresh %s with the same comparator and content gives %s", e.kind, op, short(rv), e.kind, short(ov))
		}
		after := e.walk()
		if len(after) != len(before) {
			c.Fail(lower(op), "shares-state", "%s.%s: changing the result changed the receiver (%d -> %d elements)", e.kind, op, len(before), len(after))
		}
		for j := range after {
			if after[j] != before[j] {
				c.Fail(lower(op), "shares-state", "%s.%s: changing the result changed the receiver at position %d: %v -> %v", e.kind, op, j, before[j], after[j])
			}
		}
	}
}

// receiverToResult is the other direction: results taken first, then the
// receiver is changed in place; no result may change. Run last in a case.
func (e *enumIdx[T]) receiverToResult(c *core.Ctx, d *Dom[T]) {
	r := c.R
	type held struct {
		name string
		res  *enumIdx[T]
		was  []T
	}
	var hs []held
	take := func(name string, res *enumIdx[T]) { hs = append(hs, held{name, res, res.C.Values()}) }
	c.Begin(e.kind, "Select", "always")
	take("Select(always)", e.sel(func(int, T) bool { return true }))
	c.Begin(e.kind, "Select", "even-index")
	take("Select(even index)", e.sel(func(i int, _ T) bool { return i%2 == 0 }))
	c.Begin(e.kind, "Map", "identity")
	take("Map(identity)", e.mp(func(_ int, v T) T { return v }))
	for k := 0; k < 5; k++ {
		c.Begin(e.kind, "mutate-receiver-in-place", k)
		e.mut(r.Intn(6), r.U64(), d)
		e.add(d.AnyVal(r))
		for _, h := range hs {
			if now := h.res.C.Values(); !eqSlices(now, h.was) {
				c.Fail("shares-state", "receiver-to-result", "%s: the result of %s changed (%s -> %s) when the receiver was changed afterwards", e.kind, h.name, short(h.was), short(now))
			}
		}
	}
	c.Count("obs:receiver-to-result", 1)
}

func lower(s string) string {
	b := []byte(s)
	for i := range b {
		if b[i] >= 'A' && b[i] <= 'Z' {
			b[i] += 32
		}
	}
	return string(b)
}

// ---- key enumerables --------------------------------------------------------

type kvPair[K, V any] struct {
	K K
	V V
}

type enumKey[K comparable, V comparable] struct {
	kind  string
	M     maps.Map[K, V]
	E     containers.EnumerableWithKey[K, V]
	raw   any
	iter  func() containers.IteratorWithKey[K, V]
	sel   func(f func(K, V) bool) *enumKey[K, V]
	mp    func(f func(K, V) (K, V)) *enumKey[K, V]
	fresh func() *enumKey[K, V]
}

func wrapTM[K comparable, V comparable](m *treemap.Map[K, V], cmp func(a, b K) int) *enumKey[K, V] {
	e := &enumKey[K, V]{kind: "TreeMap", M: m, E: m, raw: m}
	e.iter = func() containers.IteratorWithKey[K, V] { return m.Iterator() }
	e.sel = func(f func(K, V) bool) *enumKey[K, V] { return wrapTM(m.Select(f), cmp) }
	e.mp = func(f func(K, V) (K, V)) *enumKey[K, V] { return wrapTM(m.Map(f), cmp) }
	e.fresh = func() *enumKey[K, V] { return wrapTM(treemap.NewWith[K, V](cmp), cmp) }
	return e
}
func wrapLM[K comparable, V comparable](m *linkedhashmap.Map[K, V]) *enumKey[K, V] {
	e := &enumKey[K, V]{kind: "LinkedHashMap", M: m, E: m, raw: m}
	e.iter = func() containers.IteratorWithKey[K, V] { return m.Iterator() }
	e.sel = func(f func(K, V) bool) *enumKey[K, V] { return wrapLM(m.Select(f)) }
	e.mp = func(f func(K, V) (K, V)) *enumKey[K, V] { return wrapLM(m.Map(f)) }
	e.fresh = func() *enumKey[K, V] { return wrapLM(linkedhashmap.New[K, V]()) }
	return e
}
func wrapTB[K comparable, V comparable](m *treebidimap.Map[K, V], kc func(a, b K) int, vc func(a, b V) int) *enumKey[K, V] {
	e := &enumKey[K, V]{kind: "TreeBidiMap", M: m, E: m, raw: m}
	e.iter = func() containers.IteratorWithKey[K, V] { return m.Iterator() }
	e.sel = func(f func(K, V) bool) *enumKey[K, V] { return wrapTB(m.Select(f), kc, vc) }
	e.mp = func(f func(K, V) (K, V)) *enumKey[K, V] { return wrapTB(m.Map(f), kc, vc) }
	e.fresh = func() *enumKey[K, V] { return wrapTB(treebidimap.NewWith[K, V](kc, vc), kc, vc) }
	return e
}

func (e *enumKey[K, V]) walk() []kvPair[K, V] {
	var out []kvPair[K, V]
	for it := e.iter(); it.Next(); {
		out = append(out, kvPair[K, V]{it.Key(), it.Value()})
	}
	return out
}

func (e *enumKey[K, V]) sameAs(o *enumKey[K, V]) (string, bool) {
	a, b := e.walk(), o.walk()
	if len(a) != len(b) || e.M.Size() != o.M.Size() {
		return "sizes differ", false
	}
	for i := range a {
		if a[i] != b[i] {
			return "pairs differ", false
		}
	}
	// TreeBidiMap: the value-ordered view must agree too
	if !eqSlices(e.M.Values(), o.M.Values()) {
		return "Values() differ", false
	}
	return "", true
}

func runEnumKey(c *core.Ctx, e *enumKey[int, int], d *Dom[int]) {
	r := c.R
	kind := e.kind
	w := e.walk()
	n := len(w)
	before := w
	assertUnchanged := func(op string) {
		after := e.walk()
		if len(after) != len(before) || e.M.Size() != len(before) {
			c.Fail("receiver-changed", op, "%s.%s changed its receiver: %d pairs before, %d after", kind, op, len(before), len(after))
		}
		for i := range after {
			if after[i] != before[i] {
				c.Fail("receiver-changed", op, "%s.%s changed its receiver at position %d: %v -> %v", kind, op, i, before[i], after[i])
			}
		}
	}
	// re-entrant (pure) callbacks, as in runEnumIdx
	nested := c.R.Bool()
	ncalls := 0
	reenter := func() {
		ncalls++
		if !nested || ncalls%3 != 1 {
			return
		}
		switch ncalls / 3 % 4 {
		case 0:
			e.E.Any(func(int, int) bool { return false })
		case 1:
			e.E.All(func(int, int) bool { return true })
		case 2:
			for it := e.iter(); it.Next(); {
			}
		default:
			e.M.Size()
			e.M.Keys()
			e.M.Get(6)
		}
	}
	if nested {
		c.Count("obs:re-entrant-callbacks", 1)
	}
	c.Begin(kind, "Each")
	var log []kvPair[int, int]
	e.E.Each(func(k, v int) { reenter(); log = append(log, kvPair[int, int]{k, v}) })
	if len(log) != n {
		c.Fail("each", "count", "%s.Each made %d calls, the iterator yields %d pairs", kind, len(log), n)
	}
	for i := range log {
		if log[i] != w[i] {
			c.Fail("each", "pair", "%s.Each call %d got %v, the iterator yields %v there", kind, i, log[i], w[i])
		}
	}
	assertUnchanged("Each")
	c.Count("obs:Each", 1)
	preds := []func(k, v int) bool{
		func(k, v int) bool { return true },
		func(k, v int) bool { return false },
		func(k, v int) bool { return floorDiv(k, 6)%2 == 0 },
		func(k, v int) bool { return v%3 == 1 },
		func(k, v int) bool { return k+v > 40 },
	}
	mapNames := []string{"identity", "swap", "coarsen-key", "coarsen-value", "constant-key", "constant-value", "shift", "coarsen-both", "tiny-codomain", "swap-and-coarsen"}
	mapfs := []func(k, v int) (int, int){
		func(k, v int) (int, int) { return k, v },
		func(k, v int) (int, int) { return v, k },
		func(k, v int) (int, int) { return floorDiv(k, 18) * 18, v },
		func(k, v int) (int, int) { return k, floorDiv(v, 18) * 18 },
		func(k, v int) (int, int) { return 7, v },
		func(k, v int) (int, int) { return k, 7 },
		func(k, v int) (int, int) { return k + 6, v + 6 },
		// many-to-one on keys AND on values, by different rules: a mapped pair can
		// collide on its key with one earlier pair and on its value with another
		func(k, v int) (int, int) { return floorDiv(k, 12) * 12, floorDiv(v+k, 18) * 18 },
		func(k, v int) (int, int) { return (k / 6) % 3, (v / 6) % 2 },
		func(k, v int) (int, int) { return floorDiv(v, 12), floorDiv(k, 18) },
	}
	for rep := 0; rep < 4; rep++ {
		pi := r.Intn(len(preds))
		f := preds[pi]
		exists, all, first := false, true, -1
		for j, p := range w {
			if f(p.K, p.V) {
				exists = true
				if first < 0 {
					first = j
				}
			} else {
				all = false
			}
		}
		pure := f
		f = func(k, v int) bool { reenter(); return pure(k, v) }
		c.Begin(kind, "Any", pi)
		if got := e.E.Any(f); got != exists {
			c.Fail("any", "", "%s.Any(pred %d) = %v, exists over the iteration = %v", kind, pi, got, exists)
		}
		c.Begin(kind, "All", pi)
		if got := e.E.All(f); got != all {
			c.Fail("all", "", "%s.All(pred %d) = %v, for-all over the iteration = %v", kind, pi, got, all)
		}
		c.Begin(kind, "Find", pi)
		gk, gv := e.E.Find(f)
		if first < 0 {
			if gk != 0 || gv != 0 {
				c.Fail("find", "no-match", "%s.Find with no match = (%v,%v), want (zero, zero)", kind, gk, gv)
			}
			c.Count("obs:Find-no-match", 1)
		} else {
			if gk != w[first].K || gv != w[first].V {
				c.Fail("find", "first-match", "%s.Find(pred %d) = (%v,%v), first match in iteration order is %v", kind, pi, gk, gv, w[first])
			}
			c.Count("obs:Find-match", 1)
		}
		assertUnchanged("Any/All/Find")
		c.Begin(kind, "Select", pi)
		res := e.sel(f)
		oracle := e.fresh()
		for _, p := range w {
			if pure(p.K, p.V) {
				oracle.M.Put(p.K, p.V)
			}
		}
		if why, ok := res.sameAs(oracle); !ok {
			c.Fail("select", "content", "%s.Select(pred %d) = %v, matching pairs in original order are %v (%s)", kind, pi, res.walk(), oracle.walk(), why)
		}
		if res.raw == e.raw {
			c.Fail("select", "result-is-receiver", "%s.Select returned its receiver", kind)
		}
		assertUnchanged("Select")
		e.independent(c, "Select", res, oracle, d, before)
		c.Count("obs:Select", 1)
		mi := r.Intn(len(mapfs))
		c.Begin(kind, "Map", mapNames[mi])
		mres := e.mp(func(k, v int) (int, int) { reenter(); return mapfs[mi](k, v) })
		oracle = e.fresh()
		for _, p := range w {
			oracle.M.Put(mapfs[mi](p.K, p.V))
		}
		if why, ok := mres.sameAs(oracle); !ok {
			c.Fail("map", "content", "%s.Map(%s) = %v, repeated Put of the mapped pairs in iteration order into a fresh %s gives %v (%s)", kind, mapNames[mi], mres.walk(), kind, oracle.walk(), why)
		}
		if mres.raw == e.raw {
			c.Fail("map", "result-is-receiver", "%s.Map returned its receiver", kind)
		}
		assertUnchanged("Map")
		e.independent(c, "Map", mres, oracle, d, before)
		c.Count("obs:Map", 1)
	}
	c.State(core.Mix(core.HashString(kind), uint64(n), hashVals(e.M.Keys()), hashVals(e.M.Values())))
	e.receiverToResult(c, d)
}

func (e *enumKey[K, V]) independent(c *core.Ctx, op string, res, oracle *enumKey[K, V], d *Dom[K], before []kvPair[K, V]) {
	r := c.R
	val := func() V {
		var v V
		if iv, ok := any(r.Intn(8) * 6).(V); ok {
			v = iv
		}
		return v
	}
	for k := 0; k < 4; k++ {
		// a new key, an in-place update of an existing key, a removal
		key, v := d.AnyVal(r), val()
		res.M.Put(key, v)
		oracle.M.Put(key, v)
		if ks := oracle.M.Keys(); len(ks) > 0 {
			ek, ev := ks[r.Intn(len(ks))], val()
			res.M.Put(ek, ev)
			oracle.M.Put(ek, ev)
			if k%2 == 1 {
				rk := ks[r.Intn(len(ks))]
				res.M.Remove(rk)
				oracle.M.Remove(rk)
			}
		}
		if why, ok := res.sameAs(oracle); !ok {
			c.Fail(lower(op), "result-discipline", "%s.%s result after further Puts, updates and Removes is %v; a fresh %s with the receiver's comparators and the same content gives %v (%s)", e.kind, op, res.walk(), e.kind, oracle.walk(), why)
		}
		after := e.walk()
		if len(after) != len(before) {
			c.Fail(lower(op), "shares-state", "%s.%s: changing the result changed the receiver (%d -> %d pairs)", e.kind, op, len(before), len(after))
		}
		for i := range after {
			if after[i] != before[i] {
				c.Fail(lower(op), "shares-state", "%s.%s: changing the result changed the receiver at position %d: %v -> %v", e.kind, op, i, before[i], after[i])
			}
		}
	}
}

// receiverToResult: results taken first, then the receiver is changed; no
// result may change. Run last in a case.
func (e *enumKey[K, V]) receiverToResult(c *core.Ctx, d *Dom[K]) {
	r := c.R
	type held struct {
		name string
		res  *enumKey[K, V]
		was  []kvPair[K, V]
	}
	var hs []held
	take := func(name string, res *enumKey[K, V]) { hs = append(hs, held{name, res, res.walk()}) }
	c.Begin(e.kind, "Select", "always")
	take("Select(always)", e.sel(func(K, V) bool { return true }))
	c.Begin(e.kind, "Map", "identity")
	take("Map(identity)", e.mp(func(k K, v V) (K, V) { return k, v }))
	for k := 0; k < 5; k++ {
		c.Begin(e.kind, "mutate-receiver", k)
		var v V
		if iv, ok := any(r.Intn(8)*6 + 3).(V); ok {
			v = iv
		}
		if ks := e.M.Keys(); len(ks) > 0 && k%2 == 0 {
			e.M.Put(ks[r.Intn(len(ks))], v) // in-place update
			e.M.Remove(ks[r.Intn(len(ks))])
		} else {
			e.M.Put(d.AnyVal(r), v)
		}
		for _, h := range hs {
			now := h.res.walk()
			same := len(now) == len(h.was)
			for i := range now {
				same = same && now[i] == h.was[i]
			}
			if !same {
				c.Fail("shares-state", "receiver-to-result", "%s: the result of %s changed (%v -> %v) when the receiver was changed afterwards", e.kind, h.name, h.was, now)
			}
		}
	}
	c.Count("obs:receiver-to-result", 1)
}

var enumKinds = []string{"ArrayList", "SinglyLinkedList", "DoublyLinkedList", "TreeSet", "LinkedHashSet", "TreeMap", "LinkedHashMap", "TreeBidiMap"}

// runHugeEnum: the enumerable functions on receivers with a few hundred
// thousand elements inserted in strictly falling or rising order (the deepest
// trees, the longest lists): traversals written with their own fixed-size
// stack or with recursion only give out here. Content is known by
// construction: keys/elements 0,6,...,6(n-1), map values 7k+1.
const hugeEnumCases = 10

func runHugeEnum(c *core.Ctx, j int) {
	n := 250000
	if c.Tier == "thorough" {
		n = 1200000
	}
	natural := func(a, b int) int { return cmp.Compare(a, b) }
	falling := j%2 == 0
	key := func(i int) int {
		if falling {
			return (n - 1 - i) * 6
		}
		return i * 6
	}
	kind := []string{"TreeMap", "TreeSet", "TreeBidiMap", "LinkedHashSet", "DoublyLinkedList"}[(j/2)%5]
	c.Begin(kind, "build", n, map[bool]string{true: "falling", false: "rising"}[falling])
	var keyE containers.EnumerableWithKey[int, int]
	var idxE containers.EnumerableWithIndex[int]
	var selSize, mapSize func() int
	sorted := true
	switch kind {
	case "TreeMap":
		m := treemap.NewWith[int, int](natural)
		for i := 0; i < n; i++ {
			m.Put(key(i), 7*key(i)+1)
		}
		keyE = m
		selSize = func() int { return m.Select(func(k, v int) bool { return k%12 == 0 }).Size() }
		mapSize = func() int { return m.Map(func(k, v int) (int, int) { return -k, v }).Size() }
	case "TreeBidiMap":
		m := treebidimap.NewWith[int, int](natural, natural)
		for i := 0; i < n; i++ {
			m.Put(key(i), 7*key(i)+1)
		}
		keyE = m
		selSize = func() int { return m.Select(func(k, v int) bool { return k%12 == 0 }).Size() }
		mapSize = func() int { return m.Map(func(k, v int) (int, int) { return -k, v }).Size() }
	case "TreeSet":
		st := treeset.NewWith[int](natural)
		for i := 0; i < n; i++ {
			st.Add(key(i))
		}
		idxE = st
		selSize = func() int { return st.Select(func(i, v int) bool { return v%12 == 0 }).Size() }
		mapSize = func() int { return st.Map(func(i, v int) int { return -v }).Size() }
	case "LinkedHashSet":
		st := linkedhashset.New[int]()
		for i := 0; i < n; i++ {
			st.Add(key(i))
		}
		idxE, sorted = st, false
		selSize = func() int { return st.Select(func(i, v int) bool { return v%12 == 0 }).Size() }
		mapSize = func() int { return st.Map(func(i, v int) int { return -v }).Size() }
	default:
		l := doublylinkedlist.New[int]()
		for i := 0; i < n; i++ {
			l.Add(key(i))
		}
		idxE, sorted = l, false
		selSize = func() int { return l.Select(func(i, v int) bool { return v%12 == 0 }).Size() }
		mapSize = func() int { return l.Map(func(i, v int) int { return -v }).Size() }
	}
	want := func(pos int) int { // the pos-th element in enumeration order
		if sorted {
			return pos * 6
		}
		return key(pos)
	}
	visits := 0
	c.Begin(kind, "Each")
	if keyE != nil {
		keyE.Each(func(k, v int) {
			if k != want(visits) || v != 7*k+1 {
				c.Fail("each", "huge", "%s.Each on %d elements: visit #%d is (%d,%d), want key %d", kind, n, visits, k, v, want(visits))
			}
			visits++
		})
	} else {
		idxE.Each(func(i, v int) {
			if i != visits || v != want(visits) {
				c.Fail("each", "huge", "%s.Each on %d elements: visit #%d is (%d,%d), want (%d,%d)", kind, n, visits, i, v, visits, want(visits))
			}
			visits++
		})
	}
	if visits != n {
		c.Fail("each", "huge-count", "%s.Each on %d elements made %d visits", kind, n, visits)
	}
	last := want(n - 1)
	c.Begin(kind, "Any/All/Find")
	if keyE != nil {
		if keyE.Any(func(k, v int) bool { return k < 0 }) || !keyE.Any(func(k, v int) bool { return k == last }) {
			c.Fail("any", "huge", "%s.Any on %d elements is wrong about a key that is absent / the last one", kind, n)
		}
		if !keyE.All(func(k, v int) bool { return v == 7*k+1 }) || keyE.All(func(k, v int) bool { return k != last }) {
			c.Fail("all", "huge", "%s.All on %d elements is wrong", kind, n)
		}
		if k, v := keyE.Find(func(k, v int) bool { return k == last }); k != last || v != 7*last+1 {
			c.Fail("find", "huge", "%s.Find of the last key on %d elements = (%d,%d)", kind, n, k, v)
		}
	} else {
		if idxE.Any(func(i, v int) bool { return v < 0 }) || !idxE.Any(func(i, v int) bool { return v == last }) {
			c.Fail("any", "huge", "%s.Any on %d elements is wrong about an element that is absent / the last one", kind, n)
		}
		if !idxE.All(func(i, v int) bool { return v == want(i) }) || idxE.All(func(i, v int) bool { return v != last }) {
			c.Fail("all", "huge", "%s.All on %d elements is wrong", kind, n)
		}
		if i, v := idxE.Find(func(i, v int) bool { return v == last }); i != n-1 || v != last {
			c.Fail("find", "huge", "%s.Find of the last element on %d elements = (%d,%d)", kind, n, i, v)
		}
	}
	c.Begin(kind, "Select")
	if sz := selSize(); sz != (n+1)/2 {
		c.Fail("select", "huge", "%s.Select(every second element) on %d elements has Size %d", kind, n, sz)
	}
	c.Begin(kind, "Map")
	if sz := mapSize(); sz != n {
		c.Fail("map", "huge", "%s.Map(negate) on %d elements has Size %d", kind, n, sz)
	}
	c.Count("obs:huge-enumerable-cases", 1)
	c.Nontrivial()
}

// runEnumTyped: the index-enumerable containers over another element type.
func runEnumTyped[T comparable](c *core.Ctx, kind string, d *Dom[T], n int, coarsen func(int, T) T) {
	r := c.R
	cm := d.Cmps[r.Intn(len(d.Cmps))]
	maps := []func(int, T) T{func(_ int, v T) T { return v }, coarsen, func(int, T) T { return d.Alpha[0] }}
	names := []string{"identity", "coarsen", "constant"}
	c.Count("elemtype:"+d.Name, 1)
	c.Count("elemtype:"+d.Name+":"+kind, 1)
	c.Note("%s of %s with ~%d elements, comparator %s", kind, d.Name, n, cm.Name)
	fill := func(add func(vs ...T)) {
		for k := 0; k < n; k++ {
			add(d.Val(r))
		}
	}
	switch kind {
	case "ArrayList":
		l := arraylist.New[T]()
		fill(l.Add)
		runEnumIdx(c, wrapAL(l), d, maps, names)
	case "SinglyLinkedList":
		l := singlylinkedlist.New[T]()
		fill(l.Add)
		runEnumIdx(c, wrapSL(l), d, maps, names)
	case "DoublyLinkedList":
		l := doublylinkedlist.New[T]()
		fill(l.Add)
		runEnumIdx(c, wrapDL(l), d, maps, names)
	case "TreeSet":
		s := treeset.NewWith[T](cm.F)
		fill(s.Add)
		runEnumIdx(c, wrapTS(s, cm.F), d, maps, names)
	default:
		s := linkedhashset.New[T]()
		fill(s.Add)
		runEnumIdx(c, wrapLS(s), d, maps, names)
	}
	c.Nontrivial()
}

func runC14(c *core.Ctx) {
	if c.Index < hugeEnumCases {
		runHugeEnum(c, c.Index)
		return
	}
	r := c.R
	kind := enumKinds[c.Index%len(enumKinds)]
	d := IntDom(r.Range(3, 16))
	n := []int{0, 1, 2, r.Range(3, 10), r.Range(3, 10), r.Range(11, 40)}[r.Intn(6)]
	if c.Index%61 == 13 {
		d = IntDom(r.Range(150, 400))
		n = r.Range(300, 1200) // receivers with hundreds of elements
		c.Count("obs:big-receivers", 1)
	}
	cm := intCmps[r.Intn(len(intCmps))]
	intMaps := []func(int, int) int{
		func(i, v int) int { return v },
		func(i, v int) int { return floorDiv(v, 18) * 18 },
		func(i, v int) int { return 42 },
		func(i, v int) int { return i * 6 },
		func(i, v int) int { return -v },
		func(i, v int) int { return v + i%2*6 },
	}
	intMapNames := []string{"identity", "coarsen", "constant", "index", "negate", "value+index-parity"}
	fill := func(add func(vs ...int), remove func()) {
		for k := 0; k < n; k++ {
			add(d.Val(r))
			if r.Chance(1, 5) {
				remove()
				add(d.Val(r))
			}
		}
	}
	if c.Index%19 == 5 && (kind == "ArrayList" || kind == "SinglyLinkedList" || kind == "DoublyLinkedList" || kind == "TreeSet" || kind == "LinkedHashSet") {
		// the same on elements of a few kilobytes and on small structs
		if core.Mix(uint64(c.Index), 0xfa7)%2 == 0 { // (by hash: index arithmetic would tie the type to the container kind)
			runEnumTyped(c, kind, FatDom(r.Range(3, 12)), n, func(i int, v Fat) Fat { v.ID = v.ID/18*18 + 1; v.Pad[0] = int64(v.ID); v.Pad[599] = -int64(v.ID); return v })
		} else {
			runEnumTyped(c, kind, StructDom(r.Range(3, 12)), n, func(i int, v SK) SK { return SK{v.A / 18 * 18, "m"} })
		}
		return
	}
	c.Note("%s with ~%d elements, comparator %s", kind, n, cm.Name)
	switch kind {
	case "ArrayList":
		l := arraylist.New[int]()
		fill(l.Add, func() { l.Remove(r.Range(0, l.Size())) })
		runEnumIdx(c, wrapAL(l), d, intMaps, intMapNames)
	case "SinglyLinkedList":
		l := singlylinkedlist.New[int]()
		fill(l.Add, func() { l.Remove(r.Range(0, l.Size())) })
		runEnumIdx(c, wrapSL(l), d, intMaps, intMapNames)
	case "DoublyLinkedList":
		l := doublylinkedlist.New[int]()
		fill(l.Add, func() { l.Remove(r.Range(0, l.Size())) })
		runEnumIdx(c, wrapDL(l), d, intMaps, intMapNames)
	case "TreeSet":
		s := treeset.NewWith[int](cm.F)
		fill(s.Add, func() { s.Remove(d.Val(r)) })
		runEnumIdx(c, wrapTS(s, cm.F), d, intMaps, intMapNames)
	case "LinkedHashSet":
		s := linkedhashset.New[int]()
		fill(s.Add, func() { s.Remove(d.Val(r)) })
		runEnumIdx(c, wrapLS(s), d, intMaps, intMapNames)
	case "TreeMap":
		m := treemap.NewWith[int, int](cm.F)
		fill(func(vs ...int) { m.Put(vs[0], r.Intn(8)*6) }, func() { m.Remove(d.Val(r)) })
		runEnumKey(c, wrapTM(m, cm.F), d)
	case "LinkedHashMap":
		m := linkedhashmap.New[int, int]()
		fill(func(vs ...int) { m.Put(vs[0], r.Intn(8)*6) }, func() { m.Remove(d.Val(r)) })
		runEnumKey(c, wrapLM(m), d)
	default:
		vc := intCmps[r.Intn(len(intCmps))]
		m := treebidimap.NewWith[int, int](cm.F, vc.F)
		fill(func(vs ...int) { m.Put(vs[0], r.Intn(12)*6) }, func() { m.Remove(d.Val(r)) })
		runEnumKey(c, wrapTB(m, cm.F, vc.F), d)
	}
	c.Nontrivial()
}

func init() {
	core.Register(&core.Prop{
		ID:    "C14",
		Title: "Enumerable functions agree with iteration and leave the receiver unchanged",
		Cases: func(tier string) int { return tierN(tier, 40000, 4000000) },
		Run:   runC14,
		Rule: "one container per case (ArrayList, SinglyLinkedList, DoublyLinkedList, TreeSet, LinkedHashSet, TreeMap, LinkedHashMap, TreeBidiMap; natural/reversed/coarsened comparators; n in {0,1,2,3..40}) in a state reached by a short history; " +
			"the callback log of Each is compared with the iterator walk; Any/All/Find with exists/for-all/first-match for predicates depending on index, key and value (incl. constant true/false); Select with the matching elements in original order; " +
			"Map (identity, coarsening many-to-one, constant, index-based, swap) with a fresh container of the same kind and comparator(s) filled in iteration order; after each call the receiver's walk is unchanged, the result is another object, " +
			"and three further inserts into the result behave as on a fresh container with the receiver's comparator(s) without reaching the receiver. Every case is non-trivial (>= 17 enumerable calls); distinct = distinct hash of the call list and state.",
		Floors: func(tier string, m map[string]int64) []string {
			f := &floorCheck{m: m}
			f.atLeast("obs:Each", 5000)
			f.atLeast("obs:Select", 20000)
			f.atLeast("obs:Map", 20000)
			f.atLeast("obs:Find-match", 5000)
			f.atLeast("obs:Find-no-match", 5000)
			f.atLeast("obs:huge-enumerable-cases", hugeEnumCases)
			f.atLeast("obs:re-entrant-callbacks", 10000)
			f.atLeast("elemtype:fat-struct", 300)
			f.atLeast("elemtype:struct", 300)
			for _, k := range []string{"ArrayList", "SinglyLinkedList", "DoublyLinkedList", "TreeSet", "LinkedHashSet"} {
				f.atLeast("elemtype:fat-struct:"+k, 20)
			}
			for _, k := range enumKinds {
				f.atLeast("call:"+k+".Map", 1000)
			}
			return f.missing
		},
		Files: []string{"lists/arraylist/enumerable.go", "lists/singlylinkedlist/enumerable.go", "lists/doublylinkedlist/enumerable.go", "sets/treeset/enumerable.go", "sets/linkedhashset/enumerable.go", "maps/treemap/enumerable.go", "maps/linkedhashmap/enumerable.go", "maps/treebidimap/enumerable.go"},
		Assumptions: []string{
			"callbacks are pure (in half of the cases they read the receiver re-entrantly); the number of callback invocations made by Any/All/Find is not constrained",
			"the oracle for Select/Map results is a fresh container of the library's own kind (its map/set semantics are the business of C01-C10)",
			"a clean run says the property held on the executed states and functions only",
		},
	})
}
