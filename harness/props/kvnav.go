package props

import (
	"github.com/emirpasic/gods/v2/trees/avltree"
	"github.com/emirpasic/gods/v2/trees/btree"
	"github.com/emirpasic/gods/v2/trees/redblacktree"
)

// checkNav is C02's oracle on a comparator-ordered key-value container.
func (m *KVMon[K, V]) checkNav(full bool) {
	c := m.c
	n := m.n()
	a := m.A
	if full {
		ks := a.M.Keys()
		for i := 1; i < len(ks); i++ {
			if a.KCmp(ks[i-1], ks[i]) >= 0 {
				c.Fail("order", "keys-not-ascending", "%s(%s).Keys() is not strictly ascending at position %d: %s", a.Name, a.CmpName, i, short(ks))
			}
		}
		if len(ks) != n {
			c.Fail("order", "keys-length", "%s.Keys() has %d entries, %d keys are live", a.Name, len(ks), n)
		}
		for i, k := range ks {
			if a.KCmp(k, m.Mod.Ents[i].Key) != 0 {
				c.Fail("order", "keys-content", "%s.Keys()[%d] = %v, the %d-th smallest live key is %v", a.Name, i, k, i, m.Mod.Ents[i].Key)
			}
		}
		c.Count("nav:keys-sorted", 1)
		if a.ValuesSorted {
			vs := a.M.Values()
			for i := 1; i < len(vs); i++ {
				if a.VCmp(vs[i-1], vs[i]) >= 0 {
					c.Fail("order", "values-not-ascending", "%s(%s).Values() is not strictly ascending under the value comparator at position %d: %s", a.Name, a.CmpName, i, short(vs))
				}
			}
			c.Count("nav:values-sorted", 1)
		}
		if a.Iter != nil {
			it := a.Iter()
			i := 0
			for it.Next() {
				if i >= n {
					c.Fail("order", "iteration-too-long", "%s iterator yields more than the %d live keys", a.Name, n)
				}
				k, v := it.Key(), it.Value()
				e := &m.Mod.Ents[i]
				if a.KCmp(k, e.Key) != 0 || v != e.Val {
					c.Fail("order", "iteration-content", "%s iterator yields (%v,%v) at position %d, sorted model has (%v,%v)", a.Name, k, v, i, e.Key, e.Val)
				}
				i++
			}
			if i != n {
				c.Fail("order", "iteration-too-short", "%s iterator yields %d of %d live keys", a.Name, i, n)
			}
			c.Count("nav:iteration", 1)
		}
	}
	for _, f := range a.Min {
		k, v, ok := f()
		m.checkExtreme("min", k, v, ok, 0)
	}
	for _, f := range a.Max {
		k, v, ok := f()
		m.checkExtreme("max", k, v, ok, n-1)
	}
	if a.Floor == nil {
		return
	}
	if n <= 24 {
		for i := range m.Mod.Ents {
			m.probeFloorCeil(m.Mod.Ents[i].Key)
		}
		for _, k := range m.D.Alpha {
			m.probeFloorCeil(k)
		}
		for _, k := range m.D.Probe {
			m.probeFloorCeil(k)
		}
	} else {
		r := c.R
		for j := 0; j < 3; j++ {
			m.probeFloorCeil(m.Mod.Ents[r.Intn(n)].Key)
		}
		for j := 0; j < 3; j++ {
			m.probeFloorCeil(m.D.AnyVal(r))
		}
		m.probeFloorCeil(m.between(r.Intn(n)))
		m.probeFloorCeil(m.between(r.Intn(n)))
	}
}

// NavOp makes one navigation read (Min, Max, Floor or Ceiling) as a call of
// the history, checked against the model whatever the observation schedule.
func (m *KVMon[K, V]) NavOp() {
	c := m.c
	r := c.R
	n := m.n()
	switch r.Intn(4) {
	case 0:
		for _, f := range m.A.Min {
			c.Begin(m.A.Name, "Min/Left")
			k, v, ok := f()
			m.checkExtreme("min", k, v, ok, 0)
		}
	case 1:
		for _, f := range m.A.Max {
			c.Begin(m.A.Name, "Max/Right")
			k, v, ok := f()
			m.checkExtreme("max", k, v, ok, n-1)
		}
	default:
		if m.A.Floor == nil {
			return
		}
		if n > 0 && r.Bool() {
			i := r.Intn(n)
			if r.Bool() {
				m.probeFloorCeil(m.Mod.Ents[i].Key)
			} else {
				m.probeFloorCeil(m.between(i))
			}
		} else {
			m.probeFloorCeil(m.D.AnyVal(r))
		}
	}
}

// GetKey makes one inverse lookup as a call of the history (bidirectional
// maps); it reports whether the container has that operation.
func (m *KVMon[K, V]) GetKey() bool {
	if m.Inv == nil || len(m.VD) == 0 {
		return false
	}
	c := m.c
	v := m.VD[c.R.Intn(len(m.VD))]
	c.Begin(m.A.Name, "GetKey", v)
	k, ok := m.A.GetKey(v)
	wk, wok := m.Inv.Get(v)
	if ok != wok || (ok && !m.sameKey(k, wk)) {
		c.Fail("bidi-getkey", presentClass(wok), "%s.GetKey(%v) = (%v,%v), model says (%v,%v)", m.A.Name, v, k, ok, wk, wok)
	}
	return true
}

// between returns a probe key adjacent to live key i (for int keys the value
// key+3, which lies strictly between neighbours because keys are multiples of
// 6; other key types fall back to a domain probe).
func (m *KVMon[K, V]) between(i int) K {
	if ik, ok := any(m.Mod.Ents[i].Key).(int); ok {
		return any(ik + 3).(K)
	}
	return m.D.Probe[m.c.R.Intn(len(m.D.Probe))]
}

func (m *KVMon[K, V]) checkExtreme(which string, k K, v V, ok bool, pos int) {
	c := m.c
	n := m.n()
	if n == 0 {
		if ok {
			c.Fail("extreme", which+"-on-empty", "%s: %s reports (%v,%v,found) on an empty container", m.A.Name, which, k, v)
		}
		c.Count("nav:extreme-on-empty", 1)
		return
	}
	e := &m.Mod.Ents[pos]
	if !ok || m.A.KCmp(k, e.Key) != 0 || v != e.Val {
		c.Fail("extreme", which, "%s(%s): %s = (%v,%v,%v), want (%v,%v,true) [%d live keys]", m.A.Name, m.A.CmpName, which, k, v, ok, e.Key, e.Val, n)
	}
	c.Count("nav:extreme", 1)
}

func (m *KVMon[K, V]) probeFloorCeil(k K) {
	c := m.c
	a := m.A
	n := m.n()
	_, hit := m.Mod.find(k)
	c.Begin(a.Name, "Floor", k)
	fk, fv, fok := a.Floor(k)
	p, wok := m.Mod.Floor(k)
	if fok != wok {
		c.Fail("floor", "found-flag", "%s(%s).Floor(%v) found=%v, want %v; keys %s", a.Name, a.CmpName, k, fok, wok, short(m.Mod.Keys()))
	}
	if wok {
		e := &m.Mod.Ents[p]
		if a.KCmp(fk, e.Key) != 0 || fv != e.Val {
			c.Fail("floor", "wrong-element", "%s(%s).Floor(%v) = (%v,%v), want (%v,%v); keys %s", a.Name, a.CmpName, k, fk, fv, e.Key, e.Val, short(m.Mod.Keys()))
		}
	}
	c.Begin(a.Name, "Ceiling", k)
	ck, cv, cok := a.Ceiling(k)
	p, wok = m.Mod.Ceiling(k)
	if cok != wok {
		c.Fail("ceiling", "found-flag", "%s(%s).Ceiling(%v) found=%v, want %v; keys %s", a.Name, a.CmpName, k, cok, wok, short(m.Mod.Keys()))
	}
	if wok {
		e := &m.Mod.Ents[p]
		if a.KCmp(ck, e.Key) != 0 || cv != e.Val {
			c.Fail("ceiling", "wrong-element", "%s(%s).Ceiling(%v) = (%v,%v), want (%v,%v); keys %s", a.Name, a.CmpName, k, ck, cv, e.Key, e.Val, short(m.Mod.Keys()))
		}
	}
	switch {
	case n == 0:
		c.Count("nav:floorceil-on-empty", 1)
	case hit:
		c.Count("nav:floorceil-exact", 1)
	case !fok || !cok:
		c.Count("nav:floorceil-outside", 1)
	default:
		c.Count("nav:floorceil-between", 1)
	}
}

// checkBidi is C10's oracle: for every key and value of the alphabets the two
// directions agree with the pair of inverse model maps.
func (m *KVMon[K, V]) checkBidi(full bool) {
	c := m.c
	a := m.A
	n := m.n()
	if m.Inv.Len() != n {
		c.Fail("harness", "", "model directions disagree: %d vs %d", n, m.Inv.Len())
	}
	keys := m.D.Alpha
	for _, k := range keys {
		v, ok := a.M.Get(k)
		wv, wok := m.Mod.Get(k)
		if ok != wok || v != wv {
			c.Fail("bidi-get", presentClass(wok), "%s.Get(%v) = (%v,%v), model says (%v,%v)", a.Name, k, v, ok, wv, wok)
		}
		if ok {
			bk, bok := a.GetKey(v)
			if !bok || !m.sameKey(bk, k) {
				c.Fail("bidi-inverse", "get-without-getkey", "%s.Get(%v) = (%v,true) but GetKey(%v) = (%v,%v)", a.Name, k, v, v, bk, bok)
			}
		}
	}
	for _, v := range m.VD {
		k, ok := a.GetKey(v)
		wk, wok := m.Inv.Get(v)
		if ok != wok || (ok && !m.sameKey(k, wk)) {
			c.Fail("bidi-getkey", presentClass(wok), "%s.GetKey(%v) = (%v,%v), model says (%v,%v)", a.Name, v, k, ok, wk, wok)
		}
		if ok {
			fv, fok := a.M.Get(k)
			if !fok || !m.sameVal(fv, v) {
				c.Fail("bidi-inverse", "getkey-without-get", "%s.GetKey(%v) = (%v,true) but Get(%v) = (%v,%v)", a.Name, v, k, k, fv, fok)
			}
		}
	}
	c.Count("obs:bidi-probes", len(keys)+len(m.VD))
	if full {
		ks := a.M.Keys()
		vs := a.M.Values()
		if len(ks) != n || len(vs) != n {
			c.Fail("bidi-size", "", "%s: Size()=%d len(Keys())=%d len(Values())=%d, model has %d pairs", a.Name, a.M.Size(), len(ks), len(vs), n)
		}
		for i := range vs {
			for j := i + 1; j < len(vs); j++ {
				if m.sameVal(vs[i], vs[j]) {
					c.Fail("bidi-values", "duplicate", "%s.Values() = %s lists value %v twice (two keys share a value)", a.Name, short(vs), vs[i])
				}
			}
			if _, ok := m.Inv.Get(vs[i]); !ok {
				c.Fail("bidi-values", "stale", "%s.Values() lists %v, which no live pair holds", a.Name, vs[i])
			}
		}
		for _, k := range ks {
			if !m.Mod.Has(k) {
				c.Fail("bidi-keys", "stale", "%s.Keys() lists %v, which no live pair holds", a.Name, k)
			}
		}
		c.Count("obs:bidi-keys-values", 1)
	}
}

func (m *KVMon[K, V]) sameKey(a, b K) bool {
	if m.A.KCmp != nil {
		return m.A.KCmp(a, b) == 0
	}
	return a == b
}

func (m *KVMon[K, V]) sameVal(a, b V) bool {
	if m.A.VCmp != nil {
		return m.A.VCmp(a, b) == 0
	}
	return a == b
}

// classifyRemove records, on the exported structure before the call, which
// kind of removal is about to run (evidence that inner-node deletions and
// two-children deletions were exercised).
func (m *KVMon[K, V]) classifyRemove(k K) {
	c := m.c
	switch t := m.A.Raw.(type) {
	case *redblacktree.Tree[K, V]:
		cnt := *m.A.Count
		if n := t.GetNode(k); n != nil && n.Left != nil && n.Right != nil {
			c.Count("remove:RedBlackTree-two-children", 1)
		}
		*m.A.Count = cnt
	case *avltree.Tree[K, V]:
		cnt := *m.A.Count
		if n := t.GetNode(k); n != nil && n.Children[0] != nil && n.Children[1] != nil {
			c.Count("remove:AVLTree-two-children", 1)
		}
		*m.A.Count = cnt
	case *btree.Tree[K, V]:
		cnt := *m.A.Count
		if n := t.GetNode(k); n != nil && len(n.Children) > 0 {
			c.Count("remove:BTree-inner-node", 1)
		}
		*m.A.Count = cnt
	}
}
