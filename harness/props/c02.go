package props

import (
	"godsverif/core"

	"github.com/emirpasic/gods/v2/sets/treeset"
)

var navKinds = []string{"RedBlackTree", "AVLTree", "BTree", "TreeMap", "TreeBidiMap", "TreeSet"}

// runTreeSetNav: TreeSet.Values() and its iterator enumerate in strictly
// ascending comparator order; comparator-equal members are one member.
func runTreeSetNav[T comparable](c *core.Ctx, d *Dom[T]) {
	cm := d.Cmps[c.R.Intn(len(d.Cmps))]
	m := newTreeSetMon(c, d, cm)
	ts := m.S.(*treeset.Set[T])
	check := func() {
		vs := ts.Values()
		for i := 1; i < len(vs); i++ {
			if cm.F(vs[i-1], vs[i]) >= 0 {
				c.Fail("order", "values-not-ascending", "TreeSet(%s).Values() is not strictly ascending at position %d: %s", cm.Name, i, short(vs))
			}
		}
		if len(vs) != m.n() {
			c.Fail("order", "values-length", "TreeSet.Values() has %d entries, %d members are live", len(vs), m.n())
		}
		it := ts.Iterator()
		i := 0
		for it.Next() {
			if i >= len(vs) || !identical(it.Value(), vs[i]) || it.Index() != i {
				c.Fail("order", "iteration-content", "TreeSet iterator yields (%d,%v) at step %d, Values() = %s", it.Index(), it.Value(), i, short(vs))
			}
			i++
		}
		if i != len(vs) {
			c.Fail("order", "iteration-too-short", "TreeSet iterator yields %d of %d members", i, len(vs))
		}
		c.Count("nav:treeset-sorted", 1)
	}
	steps := c.R.Range(20, 200)
	for s := 0; s < steps; s++ {
		m.Step()
		check()
	}
	c.Nontrivial()
}

func runC02(c *core.Ctx) {
	if plans := exhaustivePlans(c.Tier); c.Index < len(plans) {
		p := plans[c.Index]
		exhaustiveTree(c, p.label, p.mk, p.k, 400000, func(m *KVMon[int, int]) { m.Nav = true }, nil)
		return
	}
	if h := c.Index - len(exhaustivePlans(c.Tier)); h >= 0 && h < hugeCases {
		runHugeTree(c, h, hugeN(c.Tier), func(m *KVMon[int, int]) { m.Nav = true })
		return
	}
	if j := c.Index - len(exhaustivePlans(c.Tier)) - hugeCases; j >= 0 && j < wideBTreeCases {
		runWideBTree(c, j, func(m *KVMon[int, int]) { m.Nav = true })
		return
	}
	kind := navKinds[c.Index%len(navKinds)]
	kt := (c.Index / len(navKinds)) % 10
	if kt == 8 {
		c.Count("keytype:struct", 1)
	} else if kt == 9 {
		c.Count("keytype:float", 1)
	}
	if kind == "TreeSet" {
		switch kt {
		case 4:
			runTreeSetNav(c, StrDom(c.R.Range(4, 14)))
		case 8:
			runTreeSetNav(c, StructDom(c.R.Range(4, 24)))
		case 9:
			runTreeSetNav(c, FKeyDom(c.R.Range(4, 24)))
		case 7:
			c.Count("keytype:wide-int", 1)
			runTreeSetNav(c, WideIntDom(c.R, c.R.Range(4, 24)))
		default:
			runTreeSetNav(c, IntDom(c.R.Range(4, 40)))
		}
		return
	}
	switch kt {
	case 4:
		runKVCase(c, kind, StrDom(c.R.Range(4, 12)), strKey, func(m *KVMon[string, int]) { m.Nav = true })
		return
	case 8:
		runKVCase(c, kind, StructDom(c.R.Range(4, 14)), structKey, func(m *KVMon[SK, int]) { m.Nav = true })
		return
	case 9:
		runKVCase(c, kind, FKeyDom(c.R.Range(4, 12)), floatKey, func(m *KVMon[float64, int]) { m.Nav = true })
		return
	case 7:
		c.Count("keytype:wide-int", 1)
		runKVCase(c, kind, WideIntDom(c.R, c.R.Range(4, 14)), wideIntKey, func(m *KVMon[int, int]) { m.Nav = true })
		return
	}
	runKVCase(c, kind, IntDom(c.R.Range(4, 12)), intKey, func(m *KVMon[int, int]) { m.Nav = true })
}

var navFiles = []string{"trees/redblacktree/redblacktree.go", "trees/avltree/avltree.go", "trees/btree/btree.go", "trees/redblacktree/iterator.go", "trees/avltree/iterator.go", "trees/btree/iterator.go", "maps/treemap/treemap.go", "sets/treeset/treeset.go", "maps/treebidimap/treebidimap.go"}

func init() {
	core.Register(&core.Prop{
		ID:    "C02",
		Title: "Comparator-ordered containers enumerate and navigate in sorted order",
		Cases: func(tier string) int { return tierN(tier, 24000, 480000) },
		Run:   runC02,
		Rule: "the first cases explore small key universes exhaustively (every reachable tree state x every Put/Remove, see exhaustive_small_scope) under the navigation oracles; the others run " +
			"the C01 workload families on RedBlackTree, AVLTree, BTree, TreeMap, TreeBidiMap and random Add/Remove histories on TreeSet, with natural, reversed, coarsened and un-normalised comparators (results of any magnitude up to math.MinInt/MaxInt) over int, string, struct and float64 keys (NaN, +-Inf, +-0 are keys like any other under cmp.Compare). " +
			"After every call: Keys() (TreeSet/TreeBidiMap Values() under the value comparator) strictly ascending and equal to the sorted model, a full iterator walk equal to it, every extreme accessor (Left/Right, Min/Max, LeftKey/RightKey) against the model, " +
			"and Floor/Ceiling for every present key, every absent alphabet key, every between-neighbours probe, min-1 and max+1 (all probes while n <= 24, 8 random ones otherwise). " +
			"Every case is non-trivial (>= 20 mutating calls each followed by these checks); distinct = distinct hash of the call list.",
		Floors: func(tier string, m map[string]int64) []string {
			f := &floorCheck{m: m}
			exhaustiveFloors(tier, f)
			f.atLeast("obs:wide-btree-cases", wideBTreeCases)
			f.atLeast("nav:floorceil-between", 10000)
			f.atLeast("nav:floorceil-on-empty", 1000)
			f.atLeast("nav:floorceil-exact", 10000)
			f.atLeast("nav:floorceil-outside", 5000)
			f.atLeast("nav:extreme-on-empty", 1000)
			f.atLeast("nav:iteration", 50000)
			f.atLeast("nav:values-sorted", 5000)
			f.atLeast("nav:treeset-sorted", 5000)
			f.atLeast("keytype:float", 500)
			f.atLeast("keytype:struct", 500)
			return f.missing
		},
		Files: navFiles,
		Assumptions: []string{
			"comparators are strict weak orders; results are compared up to comparator equality of the key plus exact value",
			"a clean run says the property held on the executed histories and probes only",
		},
	})
}
