package props

import (
	"bytes"
	"encoding/json"
	"fmt"

	"godsverif/core"
)

// denoteArr is the harness-side denotation of a JSON document for a value
// container of element type T: what encoding/json decodes into a fresh []T.
// ok is false when the document does not denote a []T (the decoder errors).
func denoteArr[T comparable](data []byte) (elems []any, ok bool) {
	var arr []T
	if err := json.Unmarshal(data, &arr); err != nil {
		return nil, false
	}
	return toAny(arr), true
}

// denoteObj is the denotation for a key-value container: the decoded pairs
// (a later duplicate of a key replaces the value of the earlier one) in the
// order in which each key first appears, as [2]any{K, V}.
func denoteObj[K comparable, V comparable](data []byte) (pairs []any, ok bool) {
	whole := map[K]V{}
	if err := json.Unmarshal(data, &whole); err != nil {
		return nil, false
	}
	if firstNonSpace(data) != '{' { // null
		return nil, true
	}
	dec := json.NewDecoder(bytes.NewReader(data))
	if _, err := dec.Token(); err != nil {
		return nil, false
	}
	seen := map[K]bool{}
	for dec.More() {
		kt, err := dec.Token()
		if err != nil {
			return nil, false
		}
		var raw json.RawMessage
		if err := dec.Decode(&raw); err != nil {
			return nil, false
		}
		kq, _ := json.Marshal(kt.(string))
		one := map[K]V{}
		if err := json.Unmarshal([]byte("{"+string(kq)+":null}"), &one); err != nil {
			return nil, false
		}
		for k := range one {
			if !seen[k] {
				seen[k] = true
				pairs = append(pairs, [2]any{k, whole[k]})
			}
		}
	}
	if len(pairs) != len(whole) {
		return nil, false
	}
	return pairs, true
}

// genArrDoc writes a well-formed array of n elements of T.
func genArrDoc[T comparable](r *core.R, d *Dom[T], n int) []byte {
	vs := make([]T, n)
	for i := range vs {
		if r.Chance(1, 6) {
			vs[i] = d.Wide(r)
		} else {
			vs[i] = d.Val(r)
		}
	}
	b, _ := json.Marshal(vs)
	return b
}

// genObjDoc writes a well-formed object of n members in random order,
// optionally repeating keys (dupKeys) or values (dupVals), sometimes with
// \u escapes in the key text.
func genObjDoc[K comparable, V comparable](r *core.R, dk *Dom[K], dv *Dom[V], n int, dupKeys, dupVals bool) []byte {
	var b bytes.Buffer
	b.WriteByte('{')
	var keys []K
	var vals []V
	for i := 0; i < n; i++ {
		var k K
		switch {
		case dupKeys && i > 0 && r.Chance(1, 3):
			k = keys[r.Intn(len(keys))]
		case r.Chance(1, 8):
			k = dk.Wide(r)
		default:
			k = dk.Val(r)
		}
		if !dupKeys {
			dup := false
			for _, o := range keys {
				if o == k {
					dup = true
				}
			}
			if dup {
				continue
			}
		}
		var v V
		if dupVals && len(vals) > 0 && r.Chance(1, 2) {
			v = vals[r.Intn(len(vals))]
		} else {
			v = dv.Val(r)
		}
		if len(keys) > 0 {
			b.WriteByte(',')
		}
		keys = append(keys, k)
		vals = append(vals, v)
		kb, _ := json.Marshal(fmt.Sprint(k))
		if r.Chance(1, 10) && len(kb) > 2 && kb[1] != '\\' && kb[1] < 0x80 {
			kb = append([]byte(fmt.Sprintf("\"\\u%04x", kb[1])), kb[2:]...)
		}
		b.Write(kb)
		if r.Chance(1, 10) {
			b.WriteString(" : ")
		} else {
			b.WriteByte(':')
		}
		vb, _ := json.Marshal(v)
		b.Write(vb)
	}
	b.WriteByte('}')
	return b.Bytes()
}

var jsonLiterals = []string{"null", "[]", "{}", "[null]", "[[]]", "[{}]", `{"a":null}`, `""`, "0", "true", " [ ] ", "\n{}\n", "", " ", "[", "{", "]", "}", `[1,2`, `{"a":`, `{"a"}`, `[,]`, `[1,]`,
	`{"a":1,}`, `nul`, `[1 2]`, `{"a" 1}`, `{1:2}`, `['a']`, `[1e400]`, `[99999999999999999999]`, `[1.5]`, `[-0]`, `{"":0}`, `{"":""}`, `[""]`, `[" "]`, `{"a":1}{"b":2}`, `[1][2]`, `[1,2]x`,
	"\xef\xbb\xbf[1]", "\xef\xbb\xbf{}", `{"a":{"b":1}}`, `[[1],[2]]`, `{"a":[1]}`, `[true,false]`, `{"a":true}`, `[1,"x",3]`, `{"a":1,"b":"x"}`, `["x",1]`, `{"\u0061":1}`, `{"a":1,"a":2}`,
	`{"A":1,"a":2}`, `[1,1,1]`, `["a","A","a"]`, `{"a":1,"b":1}`, `{"6":6,"06":7}`, `{"+6":1}`, `{"6.0":1}`, `{" 6":1}`, `{"6":"6"}`, `[null,null]`, `{"k":null}`, "[\"\\ud800\"]", `["\u0000"]`,
	// literals padded with white space, byte order marks whole and cut short, lone UTF-8 lead bytes
	"null\n", " null", "null ", "\tnull\r\n", "[]\n", " {} ", "\xef", "\xef\xbb", "\xef\xbb\xbf", "\xef\xbb\xbfnull", "\xff\xfe", "\xfe\xff", "\xc3", "\xe2\x82", "\xf0\x9f\x98",
	"[1,2] ]", "[1,2],", "[]0", "{}{}", "{} x", `{"a":1}` + "\x00",
	// member names with control characters, DEL, line separators
	`{"b\u0007":2}`, `{"a":1,"b\u000b":2,"c":3}`, `{"\u007f":1}`, `{"\u2028":1,"\u2029":2}`, `["\u0007","\u007f"]`, `{"tab\tkey":1}`}

var jsonReplacements = []string{`"x"`, `7`, `1.5`, `true`, `null`, `[1]`, `{"a":1}`, `1e400`, `99999999999999999999`, `-0`, `"\u0041"`, `""`, `-9223372036854775809`, `"7"`}

// hostileJSON derives one input from a well-formed document `valid` for the
// container's type (DESIGN §3). It returns the bytes and the family name.
func hostileJSON(r *core.R, valid []byte, other []byte) ([]byte, string) {
	switch r.Pick(22, 25, 12, 10, 10, 3, 1, 6, 6, 5) {
	case 0:
		return valid, "well-formed"
	case 1:
		return replaceElement(r, valid), "element-replaced"
	case 2:
		return []byte(jsonLiterals[r.Intn(len(jsonLiterals))]), "literal"
	case 3:
		if len(valid) < 2 {
			return valid, "well-formed"
		}
		return append([]byte(nil), valid[:r.Range(0, len(valid)-1)]...), "truncated"
	case 4:
		b := append([]byte(nil), valid...)
		switch r.Intn(3) {
		case 0:
			if len(b) > 0 {
				b[r.Intn(len(b))] ^= byte(1 << r.Intn(8))
			}
		case 1:
			p := r.Range(0, len(b))
			b = append(b[:p:p], append([]byte{"[]{}\",:0a\\ \x00\xff"[r.Intn(13)]}, b[p:]...)...)
		default:
			if len(b) > 0 {
				p := r.Intn(len(b))
				b = append(b[:p:p], b[p+1:]...)
			}
		}
		return b, "byte-mutated"
	case 5:
		b := make([]byte, r.Range(0, 24))
		for i := range b {
			b[i] = byte(r.Intn(256))
		}
		return b, "random-bytes"
	case 6:
		n := 10001
		if r.Bool() {
			return bytes.Repeat([]byte("["), n), "deep-nesting"
		}
		return append(bytes.Repeat([]byte("["), n), bytes.Repeat([]byte("]"), n)...), "deep-nesting"
	case 7:
		switch r.Intn(4) {
		case 0:
			return append([]byte("\xef\xbb\xbf"), valid...), "bom"
		case 1:
			return append(append([]byte(nil), valid...), []byte(" x")...), "trailing-garbage"
		case 2:
			return append(append([]byte(nil), valid...), valid...), "two-documents"
		default:
			return append(append([]byte(" \n\t"), valid...), []byte(" \r\n")...), "whitespace-padded"
		}
	case 8:
		return other, "other-state-output"
	default:
		return []byte(jsonLiterals[r.Intn(12)]), "literal-basic"
	}
}

// replaceElement replaces the value at one position (first, middle or last)
// of an array or object document by a value of another JSON type.
func replaceElement(r *core.R, valid []byte) []byte {
	rep := jsonReplacements[r.Intn(len(jsonReplacements))]
	pick := func(n int) int {
		switch r.Intn(3) {
		case 0:
			return 0
		case 1:
			return n - 1
		}
		return n / 2
	}
	switch firstNonSpace(valid) {
	case '[':
		var arr []json.RawMessage
		if json.Unmarshal(valid, &arr) != nil || len(arr) == 0 {
			return []byte("[" + rep + "]")
		}
		arr[pick(len(arr))] = json.RawMessage(rep)
		b, err := json.Marshal(arr)
		if err != nil {
			return []byte("[" + rep + "]")
		}
		return b
	case '{':
		keys, err := jsonObjectKeys(valid)
		if err != nil || len(keys) == 0 {
			return []byte(`{"a":` + rep + `}`)
		}
		var obj map[string]json.RawMessage
		if json.Unmarshal(valid, &obj) != nil {
			return []byte(`{"a":` + rep + `}`)
		}
		target := pick(len(keys))
		var b bytes.Buffer
		b.WriteByte('{')
		for i, k := range keys {
			if i > 0 {
				b.WriteByte(',')
			}
			kb, _ := json.Marshal(k)
			b.Write(kb)
			b.WriteByte(':')
			if i == target {
				b.WriteString(rep)
			} else {
				b.Write(obj[k])
			}
		}
		b.WriteByte('}')
		return b.Bytes()
	}
	return []byte(rep)
}
