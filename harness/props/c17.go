package props

import (
	"fmt"
	"os"
	"reflect"
	"strings"
	"syscall"
	"time"

	"godsverif/core"

	"github.com/emirpasic/gods/v2/containers"
	"github.com/emirpasic/gods/v2/queues/circularbuffer"
	"github.com/emirpasic/gods/v2/trees/btree"
)

// fdSizes is the fd-level output monitor: the child's stdout and stderr are
// regular files created by the parent, so their sizes before and after a call
// tell exactly how many bytes that call wrote.
func fdSizes() (int64, int64) {
	var a, b syscall.Stat_t
	syscall.Fstat(1, &a)
	syscall.Fstat(2, &b)
	return a.Size, b.Size
}

// refDriver calls exported methods through reflection with hostile arguments
// generated from their parameter types, so that every exported method of
// every container, iterator and node type is exercised - including ones the
// harness author never heard of.
type refDriver struct {
	c     *core.Ctx
	d     *Dyn
	other func() reflect.Value // another container of the same type and configuration
	depth int
}

const godsPath = "github.com/emirpasic/gods/v2"

func typeName(t reflect.Type) string {
	for t.Kind() == reflect.Ptr {
		t = t.Elem()
	}
	n := t.String() // e.g. arraylist.List[int]
	if i := strings.IndexByte(n, '['); i >= 0 {
		n = n[:i]
	}
	return n
}

func isGods(t reflect.Type) bool {
	for t.Kind() == reflect.Ptr || t.Kind() == reflect.Slice {
		t = t.Elem()
	}
	return strings.HasPrefix(t.PkgPath(), godsPath)
}

// monitored makes one call under the panic, output and termination monitors.
func (rd *refDriver) monitored(obj, method string, shown []any, f func() []reflect.Value) (out []reflect.Value) {
	c := rd.c
	c.Begin(obj, method, shown...)
	c.Count("method:"+obj+"."+method, 1)
	if rd.d != nil && rd.d.C.Size() == 0 {
		c.Count("method-on-empty:"+obj+"."+method, 1)
	}
	o1, e1 := fdSizes()
	out = f() // a panic propagates to RunCase, which attributes it to this call
	o2, e2 := fdSizes()
	if o2 != o1 || e2 != e1 {
		c.Fail("output", "wrote-to-stdout-or-stderr", "%s.%s wrote %d bytes to standard output and %d to standard error", obj, method, o2-o1, e2-e1)
	}
	return out
}

// arg builds a hostile argument of type t. ok is false for types the driver
// cannot construct (the method is then skipped and reported).
func (rd *refDriver) arg(t reflect.Type, recv reflect.Value) (v reflect.Value, shown any, ok bool) {
	r := rd.c.R
	switch t.Kind() {
	case reflect.Int:
		n := 0
		if rd.d != nil {
			n = rd.d.C.Size()
		}
		var i int
		if r.Bool() {
			i = hostileIndex(r, n)
		} else {
			i = IntDom(10).AnyVal(r) // also a plausible key/element
		}
		return reflect.ValueOf(i).Convert(t), i, true
	case reflect.String:
		s := StrDom(23).AnyVal(r)
		return reflect.ValueOf(s).Convert(t), s, true
	case reflect.Bool:
		b := r.Bool()
		return reflect.ValueOf(b), b, true
	case reflect.Struct:
		if t.NumField() == 0 {
			return reflect.Zero(t), "struct{}", true
		}
		if t == reflect.TypeOf(J{}) {
			v := JDom(8).AnyVal(r)
			return reflect.ValueOf(v), v, true
		}
		return reflect.Value{}, nil, false
	case reflect.Float64:
		v := FDom().AnyVal(r)
		return reflect.ValueOf(v).Convert(t), fmt.Sprint(v), true
	case reflect.Slice:
		if t.Elem().Kind() == reflect.Uint8 {
			var data []byte
			if rd.d != nil && rd.d.GenDoc != nil {
				valid := rd.d.GenDoc(r, r.Range(0, 8), r.Chance(1, 5), r.Chance(1, 5))
				data, _ = hostileJSON(r, valid, valid)
			} else {
				data = []byte(jsonLiterals[r.Intn(len(jsonLiterals))])
			}
			s := string(data)
			if len(s) > 120 {
				s = s[:120] + "…"
			}
			return reflect.ValueOf(data), s, true
		}
		k := varCount(r)
		sl := reflect.MakeSlice(t, 0, k)
		var sh []any
		for i := 0; i < k; i++ {
			ev, es, ok := rd.arg(t.Elem(), recv)
			if !ok {
				return reflect.Value{}, nil, false
			}
			sl = reflect.Append(sl, ev)
			sh = append(sh, es)
		}
		return sl, sh, true
	case reflect.Func:
		return rd.makeFunc(t), "func", true
	case reflect.Ptr:
		if t == reflect.TypeOf((*PS)(nil)) {
			v := PDom().AnyVal(r)
			return reflect.ValueOf(v), fmt.Sprint(v), true
		}
		if recv.IsValid() && t == recv.Type() {
			if r.Chance(1, 4) {
				return recv, "receiver-itself", true
			}
			if rd.other != nil {
				return rd.other(), "another-container", true
			}
		}
		// a node of the receiver's own tree (documented use of IteratorAt):
		// taken from the receiver's argument-free accessors
		if recv.IsValid() && isGods(t) {
			for _, acc := range []string{"Left", "Right"} {
				if m := recv.MethodByName(acc); m.IsValid() && m.Type().NumIn() == 0 && m.Type().NumOut() == 1 && m.Type().Out(0) == t {
					if n := m.Call(nil)[0]; !n.IsNil() && (acc == "Right" || r.Bool()) {
						return n, "node-of-this-tree", true
					}
				}
			}
			return reflect.Value{}, nil, false
		}
		return reflect.Value{}, nil, false
	}
	return reflect.Value{}, nil, false
}

// makeFunc builds a pure callback of type t: comparators are the natural
// order of their arguments (a strict weak order, as documented use requires),
// predicates and mappers are deterministic functions of their arguments.
func (rd *refDriver) makeFunc(t reflect.Type) reflect.Value {
	variant := rd.c.R.Intn(4)
	return reflect.MakeFunc(t, func(args []reflect.Value) []reflect.Value {
		h := uint64(variant)
		for _, a := range args {
			h = core.Mix(h, core.HashString(fmt.Sprint(a.Interface())))
		}
		outs := make([]reflect.Value, t.NumOut())
		for i := range outs {
			ot := t.Out(i)
			switch {
			case ot.Kind() == reflect.Int && len(args) == 2 && args[0].Type() == args[1].Type() && t.NumOut() == 1:
				// comparator
				cmpv := 0
				switch args[0].Kind() {
				case reflect.Int:
					a, b := args[0].Int(), args[1].Int()
					if a < b {
						cmpv = -1
					} else if a > b {
						cmpv = 1
					}
				case reflect.String:
					cmpv = strings.Compare(args[0].String(), args[1].String())
				}
				if variant == 1 {
					cmpv = -cmpv
				}
				outs[i] = reflect.ValueOf(cmpv).Convert(ot)
			case ot.Kind() == reflect.Bool:
				b := h%3 == 0
				if variant == 2 {
					b = true
				} else if variant == 3 {
					b = false
				}
				outs[i] = reflect.ValueOf(b)
			case ot.Kind() == reflect.Int:
				outs[i] = reflect.ValueOf(int(h%8) * 6).Convert(ot)
			case ot.Kind() == reflect.String:
				outs[i] = reflect.ValueOf(strAlphabet[h%uint64(len(strAlphabet))]).Convert(ot)
			default:
				outs[i] = reflect.Zero(ot)
				for _, a := range args {
					if a.Type() == ot {
						outs[i] = a
					}
				}
			}
		}
		return outs
	})
}

// callMethod calls method i of v with generated arguments and then exercises
// what it returned (iterators, nodes, derived containers).
func (rd *refDriver) callMethod(obj string, v reflect.Value, i int) {
	mt := v.Type().Method(i)
	m := v.Method(i)
	ft := m.Type()
	args := make([]reflect.Value, ft.NumIn())
	shown := make([]any, ft.NumIn())
	for a := 0; a < ft.NumIn(); a++ {
		av, sh, ok := rd.arg(ft.In(a), v)
		if !ok {
			rd.c.Count("skipped-method:"+obj+"."+mt.Name+"("+ft.In(a).String()+")", 1)
			rd.c.Count("unbuildable:"+obj+"."+mt.Name, 1)
			return
		}
		args[a], shown[a] = av, sh
	}
	var out []reflect.Value
	if ft.IsVariadic() {
		out = rd.monitored(obj, mt.Name, shown, func() []reflect.Value { return m.CallSlice(args) })
	} else {
		out = rd.monitored(obj, mt.Name, shown, func() []reflect.Value { return m.Call(args) })
	}
	for _, o := range out {
		rd.exercise(o)
	}
}

// exercise drives an object returned by the library: iterators through a
// random walk (values read only after a successful move), nodes and derived
// containers through their argument-free methods, one level deep.
func (rd *refDriver) exercise(o reflect.Value) {
	if !o.IsValid() || !isGods(o.Type()) || rd.depth >= 2 {
		return
	}
	if o.Kind() == reflect.Struct { // an iterator returned by value
		p := reflect.New(o.Type())
		p.Elem().Set(o)
		o = p
	}
	if o.Kind() == reflect.Slice {
		for i := 0; i < o.Len() && i < 4; i++ {
			rd.exercise(o.Index(i))
		}
		return
	}
	if o.Kind() != reflect.Ptr || o.IsNil() {
		return
	}
	if _, isIter := o.Type().MethodByName("Next"); isIter {
		if _, hasBegin := o.Type().MethodByName("Begin"); hasBegin {
			rd.driveIterator(o)
			return
		}
	}
	rd.depth++
	defer func() { rd.depth-- }()
	obj := typeName(o.Type())
	for i := 0; i < o.NumMethod(); i++ {
		mt := o.Type().Method(i)
		rd.c.Count("method:"+obj+"."+mt.Name, 0)
		if o.Method(i).Type().NumIn() != 0 {
			continue
		}
		switch mt.Name {
		case "Clear", "Pop", "Dequeue": // do not mutate through derived objects
			continue
		}
		out := rd.monitored(obj, mt.Name, nil, func() []reflect.Value { return o.Method(i).Call(nil) })
		if rd.depth < 2 {
			for _, x := range out {
				if x.IsValid() && x.Kind() == reflect.Ptr && !x.IsNil() && x.Type() != o.Type() && isGods(x.Type()) {
					rd.exercise(x)
				}
			}
		}
	}
	// A derived CONTAINER (the result of Select, Map, Intersection, Union,
	// Difference: same type as the receiver, another object) belongs to the
	// caller, who goes on using it like any other container - with arguments,
	// mutators included. (Nodes and entries are parts of the receiver and are
	// only read.)
	if rd.d != nil && o.Type() == reflect.TypeOf(rd.d.Raw) && o.Pointer() != reflect.ValueOf(rd.d.Raw).Pointer() && rd.depth < 2 {
		for k := 0; k < 4 && o.NumMethod() > 0; k++ {
			rd.callMethod(obj, o, rd.c.R.Intn(o.NumMethod()))
		}
		rd.c.Count("obs:derived-container-used-with-arguments", 1)
	}
	// exported fields holding further gods objects (B-tree node entries)
	e := o.Elem()
	if e.Kind() == reflect.Struct {
		for f := 0; f < e.NumField(); f++ {
			if !e.Type().Field(f).IsExported() {
				continue
			}
			fv := e.Field(f)
			if fv.Kind() == reflect.Slice && fv.Len() > 0 && isGods(fv.Type()) && fv.Type().Elem() != o.Type() {
				rd.exercise(fv.Index(rd.c.R.Intn(fv.Len())))
			}
		}
	}
}

func (rd *refDriver) driveIterator(it reflect.Value) {
	r := rd.c.R
	obj := typeName(it.Type()) // e.g. arraylist.Iterator
	valid := false
	names := map[string]int{}
	for i := 0; i < it.NumMethod(); i++ {
		names[it.Type().Method(i).Name] = i
		rd.c.Count("method:"+obj+"."+it.Type().Method(i).Name, 0)
	}
	order := make([]string, 0, len(names))
	for i := 0; i < it.NumMethod(); i++ {
		order = append(order, it.Type().Method(i).Name)
	}
	steps := r.Range(4, 30)
	for s := 0; s < steps; s++ {
		name := order[r.Intn(len(order))]
		m := it.Method(names[name])
		ft := m.Type()
		switch name {
		case "Next", "Prev", "First", "Last":
			out := rd.monitored(obj, name, nil, func() []reflect.Value { return m.Call(nil) })
			valid = len(out) == 1 && out[0].Kind() == reflect.Bool && out[0].Bool()
		case "Begin", "End":
			rd.monitored(obj, name, nil, func() []reflect.Value { return m.Call(nil) })
			valid = false
		case "NextTo", "PrevTo":
			f := rd.makeFunc(ft.In(0))
			out := rd.monitored(obj, name, []any{"func"}, func() []reflect.Value { return m.Call([]reflect.Value{f}) })
			valid = len(out) == 1 && out[0].Bool()
		default:
			// Value/Key/Index/Node and anything else: documented use reads
			// only after a successful move
			if !valid || ft.NumIn() != 0 {
				continue
			}
			out := rd.monitored(obj, name, nil, func() []reflect.Value { return m.Call(nil) })
			for _, x := range out {
				if x.IsValid() && x.Kind() == reflect.Ptr && !x.IsNil() {
					rd.exercise(x)
				}
			}
		}
	}
}

func runC17(c *core.Ctx) {
	r := c.R
	if canary := os.Getenv("VERIF_CANARY"); canary != "" {
		runCanary(c, canary)
		return
	}
	if c.Index%8 == 7 { // 8 and 21 are coprime: every kind still gets its share of the other cases
		runC17Deep(c)
		return
	}
	if m := c.Index % 8; m == 1 || m == 3 || m == 5 {
		runC17Borrowed(c)
		return
	}
	kind := dynKinds[c.Index%len(dynKinds)]
	c.Count("c17-kind:"+kind, 1)
	// documented constructor preconditions: exercised, allowed to panic
	if c.Index%50 == 0 {
		expectPanic(c, "CircularBuffer", "New", func() { circularbuffer.New[int](-r.Intn(2)) })
		expectPanic(c, "BTree", "New", func() { btree.New[int, int](r.Range(-1, 2)) })
	}
	d := newDynRandom(c, kind, false)
	switch c.Index % 11 { // (11 is coprime to the 21 kinds and the 8-cycle of deep cases)
	case 3:
		// pointer elements / values, the nil pointer among them
		cfg := drawCfg(r, true)
		if isKV(kind) {
			d = NewDyn(kind, IntDom(8), PDom(), cfg)
		} else {
			d = NewDyn(kind, PDom(), IntDom(4), cfg)
		}
		c.Begin(kind, "New", d.Elem, d.Config)
		c.Count("c17:pointer-element-cases", 1)
	case 5:
		// zero-size elements / values (struct{}): sizes that divide by zero,
		// elements that all live at one address
		cfg := drawCfg(r, true)
		if isKV(kind) {
			d = NewDyn(kind, IntDom(8), ZDom(), cfg)
		} else {
			d = NewDyn(kind, ZDom(), IntDom(4), cfg)
		}
		c.Begin(kind, "New", d.Elem, d.Config)
		c.Count("c17:zero-size-element-cases", 1)
	case 7:
		// float elements / values incl. NaN and the infinities
		cfg := drawCfg(r, true)
		if isKV(kind) {
			d = NewDyn(kind, StrDom(8), FDom(), cfg)
		} else {
			d = NewDyn(kind, FDom(), IntDom(4), cfg)
		}
		c.Begin(kind, "New", d.Elem, d.Config)
		c.Count("c17:float-element-cases", 1)
	}
	if r.Intn(3) > 0 {
		d.build(c, r.Range(0, 25))
	}
	rd := &refDriver{c: c, d: d}
	rd.other = func() reflect.Value {
		o := d.Fresh()
		o.build(c, r.Range(0, 8))
		return reflect.ValueOf(o.Raw)
	}
	v := reflect.ValueOf(d.Raw)
	obj := typeName(v.Type())
	nm := v.NumMethod()
	for i := 0; i < nm; i++ {
		c.Count("method:"+obj+"."+v.Type().Method(i).Name, 0)
	}
	steps := r.Range(20, 120)
	for s := 0; s < steps; s++ {
		i := r.Intn(nm)
		if name := v.Type().Method(i).Name; name == "Clear" && r.Intn(4) != 0 {
			continue
		}
		rd.callMethod(obj, v, i)
		if s%10 == 9 {
			// the package-level helpers
			if cont, ok := d.Raw.(containers.Container[int]); ok {
				rd.monitored("containers", "GetSortedValues", nil, func() []reflect.Value { containers.GetSortedValues(cont); return nil })
				rd.monitored("containers", "GetSortedValuesFunc", nil, func() []reflect.Value {
					containers.GetSortedValuesFunc(cont, intCmps[r.Intn(4)].F)
					return nil
				})
			}
		}
	}
	// on a certainly empty container, every argument-free and simple method once more
	c.Begin(obj, "Clear")
	d.C.Clear()
	for i := 0; i < nm; i++ {
		rd.callMethod(obj, v, i)
	}
	c.State(core.Mix(core.HashString(obj), core.HashString(d.Elem), uint64(steps)))
	c.Nontrivial()
}

// runC17Deep runs the state-deep workloads written for other properties
// (order families on the trees, list sawtooth, ring sweep, heap histories,
// iterator walks) under C17's monitors only: panics, termination and - through
// the OnCall hook - output written by any single call deep inside a history
// (a stray log line in a rebalancing path, say).
func runC17Deep(c *core.Ctx) {
	// only C17's own verdicts count here (panics are reported by RunCase)
	c.Only = func(kind string) bool { return kind == "output" }
	o0, e0 := fdSizes()
	c.OnCall = func() {
		o, e := fdSizes()
		if o != o0 || e != e0 {
			wo, we := o-o0, e-e0
			o0, e0 = o, e
			c.Fail("output", "wrote-to-stdout-or-stderr", "the call wrote %d bytes to standard output and %d to standard error", wo, we)
		}
	}
	defer func() {
		c.OnCall()
		c.OnCall = nil
	}()
	r := c.R
	switch r.Intn(8) {
	case 0, 1, 2:
		kind := kvKinds[r.Intn(len(kvKinds))]
		runKVCase(c, kind, IntDom(r.Range(4, 12)), intKey, func(m *KVMon[int, int]) {})
	case 3:
		runListSawtooth(c, IntDom(6))
	case 4:
		runListHistory(c, IntDom(8), 300, r.Range(50, 200))
	case 5:
		p := ringPlan[r.Intn(len(ringPlan))]
		runRingSweep(c, p[0], p[1])
	case 6:
		runC06(c)
	default:
		runCursorRandom(c, iterTypes[r.Intn(len(iterTypes))])
	}
	c.Count("deep-cases", 1)
}

// borrowFrom lists the properties whose complete case generators C17 borrows.
var borrowFrom = []string{"C01", "C02", "C03", "C04", "C05", "C06", "C07", "C08", "C09", "C10", "C11", "C12", "C13", "C14", "C15", "C16"}

// runC17Borrowed runs one case of another property - any case its generator
// can produce at this tier, drawn by a hash of the index - under C17's
// monitors only (panic, termination, per-call output). Whatever state-deep,
// size-deep or type-deep mechanism a neighbouring check has is thereby also
// a C17 workload: a call that panics only on a list grown beyond a
// thousand elements, or only after a refused load, is reached here too.
func runC17Borrowed(c *core.Ctx) {
	c.Only = func(kind string) bool { return kind == "output" }
	o0, e0 := fdSizes()
	c.OnCall = func() {
		o, e := fdSizes()
		if o != o0 || e != e0 {
			wo, we := o-o0, e-e0
			o0, e0 = o, e
			c.Fail("output", "wrote-to-stdout-or-stderr", "the call wrote %d bytes to standard output and %d to standard error", wo, we)
		}
	}
	defer func() {
		c.OnCall()
		c.OnCall = nil
	}()
	id := borrowFrom[core.Mix(uint64(c.Index), 0xb0440) % uint64(len(borrowFrom))]
	p := core.Lookup(id)
	if p == nil {
		return
	}
	n := p.Cases(c.Tier)
	j := int(core.Mix(uint64(c.Index), c.Seed, 0x5ca1e) % uint64(n))
	c.Count("borrowed:"+id, 1)
	c.Note("case %d of %s under C17's monitors", j, id)
	c.Borrow(id, j, p.Run)
	c.Nontrivial()
}

// runCanary makes the monitors' liveness observable: each canary commits the
// offence inside a pretend library call and must be caught.
func runCanary(c *core.Ctx, kind string) {
	rd := &refDriver{c: c}
	switch kind {
	case "print":
		rd.monitored("canary", "print", nil, func() []reflect.Value { os.Stdout.Write([]byte("x")); return nil })
	case "stderr":
		rd.monitored("canary", "stderr", nil, func() []reflect.Value { os.Stderr.Write([]byte("x")); return nil })
	case "panic":
		rd.monitored("canary", "panic", nil, func() []reflect.Value { var m map[int]int; m[1] = 1; return nil })
	case "spin":
		rd.monitored("canary", "spin", nil, func() []reflect.Value {
			for i := 0; ; i++ {
				if i < 0 {
					break
				}
			}
			return nil
		})
	}
}

func init() {
	core.Register(&core.Prop{
		ID:    "C17",
		Title: "Every operation returns normally and silently for every argument",
		Cases: func(tier string) int { return tierN(tier, 60480, 4032000) },
		Run:   runC17,
		Rule: "one container per case, cycling through all 21 kinds and element types, in a state reached by a random history (a third start empty); 20-120 calls chosen uniformly from ALL exported methods of the container's type as found by reflection, " +
			"with arguments generated from the parameter types: hostile indices (MinInt, -1, 0, n/2, n-1, n, n+1, MaxInt, ...), domain and probe keys/elements, variadic lists of 0,1,2,3,17 values, hostile JSON for []byte, pure callbacks and valid comparators for func parameters, " +
			"the receiver itself or another container for same-type parameters; every iterator returned is driven through a random walk (Index/Key/Value/Node read only after a successful move), every node, entry and derived container returned is exercised through its argument-free methods; " +
			"finally the container is cleared and every method is called once more. One case in eight is a state-deep workload of another property and three in eight are whole cases borrowed from the generators of C01-C16 (any case of theirs, drawn by a hash of the index), run under C17's monitors only. Each call runs under the panic monitor, the per-call fstat monitor on fd 1/2, the comparator/step budget and the per-case watchdog. Every case is non-trivial; distinct = distinct hash of the call list.",
		OutputIsViolation: true,
		CaseBudget:        func(tier string) time.Duration { return 60 * time.Second },
		Floors: func(tier string, m map[string]int64) []string {
			var missing []string
			n := 0
			for k, v := range m {
				if strings.HasPrefix(k, "method:") {
					n++
					if m["unbuildable:"+strings.TrimPrefix(k, "method:")] > 0 {
						continue // reported in the evidence file, not a reason to distrust the run
					}
					if v < 20 {
						missing = append(missing, fmt.Sprintf("%s called %d times (< 20)", k, v))
					}
				}
			}
			if n < 300 {
				missing = append(missing, fmt.Sprintf("only %d exported methods were enumerated (< 300)", n))
			}
			for _, id := range borrowFrom {
				if m["borrowed:"+id] < 100 {
					missing = append(missing, fmt.Sprintf("only %d cases borrowed from %s (< 100)", m["borrowed:"+id], id))
				}
			}
			for _, k := range dynKinds {
				if m["c17-kind:"+k] < 100 {
					missing = append(missing, fmt.Sprintf("container kind %s was driven in only %d cases (< 100)", k, m["c17-kind:"+k]))
				}
			}
			if len(missing) > 12 {
				missing = append(missing[:12], "…")
			}
			return missing
		},
		Post:  c17Post,
		Files: append(append(append([]string{}, allContainerFiles...), iterFiles...), serFiles...),
		Assumptions: []string{
			"documented use: containers come from their constructors, comparators are valid orders, callbacks are pure, iterator values are read only after a successful move, nodes passed to the library come from the same tree; resource exhaustion (sizes > 2^20) is out of scope",
			"non-termination is decided by the per-case watchdog (30 s for cases that normally take milliseconds) confirmed by a replay of the same case with twice the budget",
			"output written through descriptors other than 1 and 2 is not seen",
		},
	})
}

// c17Post runs the liveness canaries: a child that writes one byte to stdout,
// one to stderr, one that panics and one that spins. Each must be caught by
// the monitor responsible, otherwise the run is inconclusive.
func c17Post(run *core.RunInfo) {
	res := map[string]string{}
	want := map[string]string{"print": "wrote-to-stdout-or-stderr", "stderr": "wrote-to-stdout-or-stderr", "panic": "panic"}
	k := 900
	for _, kind := range []string{"print", "stderr", "panic"} {
		k++
		viol, _, _ := core.RunSingleChild(run, k, 0, []string{"VERIF_CANARY=" + kind}, 20*time.Second)
		caught := false
		for _, v := range viol {
			if strings.Contains(v.Sig, want[kind]) {
				caught = true
			}
		}
		if caught {
			res[kind] = "caught"
		} else {
			res[kind] = "MISSED"
			run.Inconclusive = append(run.Inconclusive, "liveness canary '"+kind+"' was not caught by its monitor")
		}
	}
	k++
	_, exit, done := core.RunSingleChild(run, k, 0, []string{"VERIF_CANARY=spin"}, 2*time.Second)
	if !done && exit == core.HangExit {
		res["spin"] = "caught"
	} else {
		res["spin"] = "MISSED"
		run.Inconclusive = append(run.Inconclusive, "liveness canary 'spin' was not stopped by the per-case watchdog")
	}
	run.Extra["liveness_canaries"] = res
	skipped := map[string]int64{}
	for k, v := range run.Counters {
		if strings.HasPrefix(k, "skipped-method:") {
			skipped[strings.TrimPrefix(k, "skipped-method:")] = v
		}
	}
	run.Extra["methods_skipped_for_unconstructible_parameter"] = skipped
}
