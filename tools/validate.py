#!/opt/veriftools/pyvenv/bin/python3
"""Validates MANIFEST.json and every evidence file against the schemas in /root/.vp."""
import json, sys, glob, jsonschema
ok = True
def v(path, schema):
    global ok
    try:
        jsonschema.validate(json.load(open(path)), json.load(open(schema)))
        print("ok   ", path)
    except Exception as e:
        ok = False
        print("FAIL ", path, str(e)[:300])
v("/verif/MANIFEST.json", "/root/.vp/MANIFEST.schema.json")
for f in sorted(glob.glob("/verif/evidence/*.json")):
    v(f, "/root/.vp/EVIDENCE.schema.json")
sys.exit(0 if ok else 1)
