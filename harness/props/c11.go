package props

import (
	"fmt"
	"encoding/json"

	"godsverif/core"
)

// equivalent compares two containers of the same kind and configuration
// through every observer; heapOrderFree relaxes the order of Values() and
// iteration for heaps built by different routes (both valid heap layouts).
func equivalent(a, b *Dyn, heapOrderFree bool) string {
	oa, ob := a.Observe(false), b.Observe(false)
	if heapOrderFree && (a.Family == "heap" || a.Kind == "PriorityQueue") {
		if oa.Size != ob.Size || oa.Empty != ob.Empty || !sameMultiset(oa.Values, ob.Values) {
			return "contents differ: " + short(oa.Values) + " vs " + short(ob.Values)
		}
		if len(oa.Values) > 0 && oa.Values[0] != ob.Values[0] {
			return "first element (Peek) differs: " + oa.Values[0] + " vs " + ob.Values[0]
		}
		return ""
	}
	if diff := oa.Diff(ob); diff != "" {
		return diff
	}
	if a.Walk != nil && !sameWalk(a.Walk(), b.Walk()) {
		return "iteration order differs"
	}
	return ""
}

// Huge round trips: a couple of hundred thousand keys inserted in strictly
// falling order (the deepest trees, the longest lists), serialised, loaded into
// a fresh container and serialised again.
var hugeRoundTripKinds = []string{"TreeSet", "TreeMap", "TreeBidiMap", "RedBlackTree", "AVLTree", "BTree", "LinkedHashMap", "LinkedHashSet", "ArrayList", "DoublyLinkedList", "SinglyLinkedList", "HashMap", "HashSet"}

// Sized round trips: every container at exactly the sizes where block-wise
// encoders, chunked copies and growth policies have their seams (powers of two
// and their multiples, one below, one above).
var roundTripSizes = []int{63, 64, 65, 127, 128, 255, 256, 257, 511, 512, 513, 1023, 1024, 1025, 1536, 2048, 2560, 4096, 4097, 8192}

func sizedRoundTripCases() int { return len(dynKinds) * len(roundTripSizes) }

func runHugeRoundTrip(c *core.Ctx, j int) {
	kind := hugeRoundTripKinds[j]
	n := 220000
	if c.Tier == "thorough" {
		n = 1000000
	}
	roundTripOf(c, kind, n, j)
	c.Count("obs:huge-round-trips", 1)
}

func runSizedRoundTrip(c *core.Ctx, j int) {
	kind := dynKinds[j%len(dynKinds)]
	n := roundTripSizes[j/len(dynKinds)]
	roundTripOf(c, kind, n, j)
	c.Count("obs:sized-round-trips", 1)
}

func roundTripOf(c *core.Ctx, kind string, n int, j int) {
	cfg := dynCfg{cmp: 0, vcmp: 0, order: []int{3, 4, 64}[j%3], cap: n}
	d := NewDyn(kind, IntDom(8), IntDom(8), cfg)
	c.Begin(kind, "build", n, "falling")
	vs := make([]any, 0, n)
	for i := n - 1; i >= 0; i-- {
		if isKV(kind) {
			vs = append(vs, [2]any{i * 6, i*6 + 1})
		} else {
			vs = append(vs, i*6)
		}
	}
	d.PutAny(vs)
	c.Begin(kind, "ToJSON")
	j1, err := d.JSON.ToJSON()
	if err != nil {
		c.Fail("tojson", "huge-error", "%s.ToJSON() with %d elements returned %v", kind, n, err)
	}
	f := d.Fresh()
	c.Begin(kind, "FromJSON", len(j1))
	if err := f.JSON.FromJSON(j1); err != nil {
		c.Fail("fromjson", "huge-error", "%s.FromJSON of its own %d-element output returned %v", kind, n, err)
	}
	if f.C.Size() != n || d.C.Size() != n {
		c.Fail("reload", "huge-size", "%s with %d elements: reloaded Size() = %d, original Size() = %d", kind, n, f.C.Size(), d.C.Size())
	}
	c.Begin(kind, "ToJSON(reloaded)")
	j2, err := f.JSON.ToJSON()
	if err != nil {
		c.Fail("tojson", "huge-error", "%s.ToJSON() of the reloaded container returned %v", kind, err)
	}
	if d.Ordered && string(j1) != string(j2) {
		c.Fail("reload", "huge-not-equivalent", "%s with %d elements: the reloaded container serialises differently (%d vs %d bytes)", kind, n, len(j1), len(j2))
	}
	if !d.Ordered && len(j1) != len(j2) {
		c.Fail("reload", "huge-not-equivalent", "%s with %d elements: the reloaded container serialises to %d bytes, the original to %d", kind, n, len(j2), len(j1))
	}
	// spot checks on the reloaded container
	if f.Get != nil {
		for _, i := range []int{0, 1, n / 2, n - 1} {
			if v, ok := f.Get(i * 6); !ok || v != any(i*6+1) {
				c.Fail("reload", "huge-get", "%s reloaded from %d pairs: Get(%d) = (%v,%v)", kind, n, i*6, v, ok)
			}
		}
	}
	c.Nontrivial()
}

// runC11Floats: containers whose content includes values encoding/json refuses
// (NaN, the infinities). ToJSON may then return an error - but an error is all
// it may do: the next serialisation, of this or any other container, must be
// unaffected (buffers taken from a pool and put back half-written on the error
// path), and encodable float content must round-trip like any other.
func runC11Floats(c *core.Ctx, sel int) {
	r := c.R
	kind := dynKinds[sel%len(dynKinds)]
	if kind == "HashBidiMap" {
		kind = "TreeBidiMap" // (its values are hash keys of the inverse map: NaN there is outside every statement)
	}
	cfg := drawCfg(r, true)
	var d *Dyn
	var good []any
	if isKV(kind) {
		d = NewDyn(kind, StrDom(8), FDom(), cfg)
		good = []any{[2]any{"a", 1.5}, [2]any{"b", 3.0}, [2]any{"k1", -2.25}}
	} else {
		d = NewDyn(kind, FDom(), IntDom(4), cfg)
		good = []any{1.5, 3.0, -2.25}
	}
	c.Begin(kind, "New", d.Elem, d.Config)
	d.build(c, r.Range(1, 30))
	bad := false
	for _, lst := range [][]any{d.Values(), func() []any {
		if d.Keys != nil {
			return d.Keys()
		}
		return nil
	}()} {
		for _, v := range lst {
			if f, ok := v.(float64); ok && (f != f || f > 1e308 || f < -1e308) {
				bad = true
			}
		}
	}
	c.Begin(kind, "ToJSON")
	j, err := d.JSON.ToJSON()
	switch {
	case err != nil && !bad:
		c.Fail("tojson", "error", "%s(%s).ToJSON() returned %v although every element is encodable: %s", kind, d.Elem, err, short(d.Values()))
	case err != nil:
		c.Count("obs:tojson-refused-unencodable-content", 1)
	default:
		f := d.Fresh()
		c.Begin(kind, "FromJSON", string(j))
		if e := f.JSON.FromJSON(j); e != nil {
			c.Fail("reload", "own-output-rejected", "%s(%s).FromJSON rejects the container's own ToJSON output %s: %v", kind, d.Elem, j, e)
		}
		if diff := equivalent(d, f, true); diff != "" {
			c.Fail("reload", "not-equivalent", "%s(%s) reloaded from its own ToJSON output %s: %s", kind, d.Elem, j, diff)
		}
		c.Count("obs:float-round-trips", 1)
	}
	// whatever happened above, the next serialisation is a serialisation like any other
	o := d.Fresh()
	o.PutAny(good)
	c.Begin(kind, "ToJSON", "another container, after the call above")
	j2, err2 := o.JSON.ToJSON()
	if err2 != nil || !json.Valid(j2) {
		c.Fail("tojson", "after-refused-call", "%s(%s).ToJSON() of a container holding %v, called after another container's ToJSON, returned %s, %v", kind, d.Elem, good, j2, err2)
	}
	f2 := d.Fresh()
	if e := f2.JSON.FromJSON(j2); e != nil {
		c.Fail("reload", "own-output-rejected", "%s(%s).FromJSON rejects ToJSON output %s: %v", kind, d.Elem, j2, e)
	}
	if diff := equivalent(o, f2, true); diff != "" {
		c.Fail("reload", "not-equivalent", "%s(%s) holding %v reloaded from its own ToJSON output %s (produced right after another container's ToJSON call): %s", kind, d.Elem, good, j2, diff)
	}
	c.Count("obs:serialisation-after-float-case", 1)
	c.Nontrivial()
}

func runC11(c *core.Ctx) {
	if c.Index < len(hugeRoundTripKinds) {
		runHugeRoundTrip(c, c.Index)
		return
	}
	if j := c.Index - len(hugeRoundTripKinds); j >= 0 && j < sizedRoundTripCases() {
		runSizedRoundTrip(c, j)
		return
	}
	if c.Index%41 == 7 {
		runC11Nested(c, c.Index/41)
		return
	}
	if c.Index%47 == 9 {
		runC11NullInside(c, c.Index/47)
		return
	}
	if c.Index%43 == 11 {
		runC11Floats(c, c.Index/43)
		return
	}
	r := c.R
	kind := dynKinds[c.Index%len(dynKinds)]
	d := newDynRandom(c, kind, false)
	state := r.Intn(10)
	switch {
	case state == 0:
		c.Count("state:never-used", 1)
	case state == 1:
		d.build(c, r.Range(1, 12))
		c.Begin(kind, "Clear")
		d.C.Clear()
		c.Count("state:used-then-cleared", 1)
	case state == 2:
		// a second generation: used (a ring often to the brim), cleared, used again
		d.build(c, r.Range(1, 20))
		if d.Cap > 0 && r.Bool() {
			for d.C.Size() < d.Cap {
				d.Grow(c)
			}
		}
		c.Begin(kind, "Clear")
		d.C.Clear()
		for k := r.Range(1, 8); k > 0; k-- {
			d.Grow(c)
		}
		c.Count("state:cleared-then-refilled", 1)
	default:
		d.build(c, r.Range(1, 40))
		if d.Cap > 0 {
			if d.C.Size() == d.Cap {
				c.Count("state:ring-full", 1)
			} else {
				c.Count("state:ring-partial", 1)
			}
		}
	}
	orig := d.Observe(false)

	c.Begin(kind, "ToJSON")
	j, err := d.JSON.ToJSON()
	if err != nil {
		c.Fail("tojson", "error", "%s.ToJSON() returned error %v in state %s", kind, err, short(orig.Values))
	}
	if !json.Valid(j) {
		c.Fail("tojson", "invalid-json", "%s.ToJSON() = %q is not valid JSON", kind, j)
	}
	want := byte('[')
	if !d.JSONArr {
		want = '{'
	}
	if firstNonSpace(j) != want {
		c.Fail("tojson", "wrong-shape", "%s.ToJSON() = %s: want a JSON %s", kind, j, map[byte]string{'[': "array", '{': "object"}[want])
	}
	c.Begin(kind, "json.Marshal")
	mj, err := json.Marshal(d.Raw)
	if err != nil {
		c.Fail("marshal", "error", "json.Marshal(%s) returned error %v although ToJSON() = %s", kind, err, j)
	}
	if d.Ordered {
		if string(mj) != string(j) {
			c.Fail("marshal", "differs-from-tojson", "json.Marshal(%s) = %s but ToJSON() = %s", kind, mj, j)
		}
	} else if canonJSON(mj) != canonJSON(j) {
		c.Fail("marshal", "differs-from-tojson", "json.Marshal(%s) = %s but ToJSON() = %s (beyond element order)", kind, mj, j)
	}
	if diff := orig.Diff(d.Observe(false)); diff != "" {
		c.Fail("tojson", "not-pure", "%s.ToJSON()/MarshalJSON altered the container: %s", kind, diff)
	}
	c.Count("obs:tojson", 1)

	// reload into fresh containers of the same type and configuration
	loaders := []struct {
		name string
		load func(t *Dyn) error
	}{
		{"FromJSON", func(t *Dyn) error { return t.JSON.FromJSON(j) }},
		{"json.Unmarshal", func(t *Dyn) error { return json.Unmarshal(j, t.Raw) }},
		{"UnmarshalJSON", func(t *Dyn) error { return t.JSON.UnmarshalJSON(j) }},
		// as a member of an enclosing document: encoding/json hands the loader a
		// sub-slice of the caller's buffer, with the rest of the document behind
		// it; the members after it must still decode
		{"json.Unmarshal(enclosing document)", func(t *Dyn) error {
			u, ok := t.Raw.(json.Unmarshaler)
			if !ok {
				return t.JSON.FromJSON(j)
			}
			holder := struct {
				A int              `json:"a"`
				C json.Unmarshaler `json:"c"`
				Z []int            `json:"z"`
			}{C: u}
			doc := append(append([]byte(`{"a":1,"c":`), j...), `,"z":[2,3]}`...)
			if err := json.Unmarshal(doc, &holder); err != nil {
				return err
			}
			if holder.A != 1 || len(holder.Z) != 2 || holder.Z[0] != 2 || holder.Z[1] != 3 {
				return fmt.Errorf("the members around the container decoded as a=%d z=%v, want a=1 z=[2 3]", holder.A, holder.Z)
			}
			return nil
		}},
	}
	var reloaded []*Dyn
	for _, ld := range loaders {
		t := d.Fresh()
		c.Begin(kind, ld.name, string(j))
		if err := ld.load(t); err != nil {
			c.Fail("reload", "error", "%s: %s of the container's own output %s returned %v", kind, ld.name, j, err)
		}
		if diff := equivalent(d, t, false); diff != "" {
			c.Fail("reload", "not-equivalent", "%s(%s %s): %s of its own ToJSON() %s into a fresh container is not equivalent to the original: %s", kind, d.Elem, d.Config, ld.name, j, diff)
		}
		reloaded = append(reloaded, t)
		c.Count("obs:reload", 1)
	}
	if orig.Size > 0 {
		c.Count("obs:reload-nonempty", 1)
	}
	// what ToJSON returned must stay what it was: serialize other states
	// (another container of the kind, the reloaded copies) and look again
	jCopy := string(j)
	if o := d.Fresh(); true {
		o.build(c, r.Range(1, 10))
		c.Begin(kind, "ToJSON", "another container of the same kind")
		o.JSON.ToJSON()
		for _, t := range reloaded {
			t.JSON.ToJSON()
		}
	}
	if string(j) != jCopy {
		c.Fail("tojson", "result-overwritten-later", "%s: the bytes returned by ToJSON() were %s and became %s after later ToJSON() calls on other containers", kind, jCopy, j)
	}
	// continue all of them with the same calls; they must stay equivalent
	realR := c.R
	for s := 0; s < 8; s++ {
		seed := realR.U64()
		for _, t := range append([]*Dyn{d}, reloaded...) {
			c.R = core.NewR(seed)
			if s%2 == 0 {
				t.Grow(c)
			} else {
				t.Mutate(c)
			}
		}
		c.R = realR
		for i, t := range reloaded {
			if diff := equivalent(d, t, false); diff != "" {
				c.Fail("reload", "diverges-later", "%s: after the same %d further calls the container reloaded via %s differs from the original: %s", kind, s+1, loaders[i].name, diff)
			}
		}
	}
	c.Count("obs:lockstep-continuation", 1)
	// the same subsequent Pop/Dequeue sequence, drained in lockstep
	if d.Take != nil {
		n := d.C.Size()
		for step := 0; step <= n; step++ {
			v, ok := d.Take()
			for i, t := range reloaded {
				tv, tok := t.Take()
				if tv != v || tok != ok {
					c.Fail("reload", "drain-differs", "%s: removal %d from the original returns (%v,%v), from the container reloaded via %s (%v,%v)", kind, step, v, ok, loaders[i].name, tv, tok)
				}
			}
		}
		c.Count("obs:lockstep-drain", 1)
	}
	c.State(core.Mix(core.HashString(kind), core.HashString(string(j))))
	c.Nontrivial()
}

var serFiles = []string{"lists/arraylist/serialization.go", "lists/singlylinkedlist/serialization.go", "lists/doublylinkedlist/serialization.go", "sets/hashset/serialization.go", "sets/treeset/serialization.go", "sets/linkedhashset/serialization.go",
	"stacks/arraystack/serialization.go", "stacks/linkedliststack/serialization.go", "queues/arrayqueue/serialization.go", "queues/linkedlistqueue/serialization.go", "queues/circularbuffer/serialization.go", "queues/priorityqueue/serialization.go",
	"maps/hashmap/serialization.go", "maps/treemap/serialization.go", "maps/linkedhashmap/serialization.go", "maps/hashbidimap/serialization.go", "maps/treebidimap/serialization.go",
	"trees/redblacktree/serialization.go", "trees/avltree/serialization.go", "trees/btree/serialization.go", "trees/binaryheap/serialization.go"}

func init() {
	core.Register(&core.Prop{
		ID:    "C11",
		Title: "JSON serialization round-trips every container state",
		Cases: func(tier string) int { return tierN(tier, 42000, 2520000) },
		Run:   runC11,
		ParSkip: func(string) int { return len(hugeRoundTripKinds) + sizedRoundTripCases() + 8 },
		Rule: "one container per case, cycling through all 21 kinds (int/string elements, four key/value type pairs incl. values whose text equals keys, all comparators, ring capacities 1..64, B-tree orders) in a state that is never-used, used-then-cleared or reached by a random history (wrapped, partially filled and full rings); " +
			"ToJSON must succeed, be valid JSON of the right shape and equal json.Marshal (byte for byte; up to element order for hash containers) without altering the container; its output is loaded by FromJSON, json.Unmarshal, UnmarshalJSON and json.Unmarshal of an enclosing document (the container as a member between other members) into four fresh containers of the same configuration, " +
			"each of which must be equivalent to the original in every observer and iteration order, then drained in lockstep with it (stacks, queues, heaps) or continued with identical calls (others). Every case is non-trivial; distinct = distinct hash of the call list and the serialized state.",
		Floors: func(tier string, m map[string]int64) []string {
			f := &floorCheck{m: m}
			f.atLeast("obs:reload", 20000)
			f.atLeast("obs:reload-nonempty", 5000)
			f.atLeast("obs:tojson-refused-unencodable-content", 200)
			f.atLeast("obs:serialisation-after-float-case", 500)
			f.atLeast("obs:nested-tojson", 1000)
			f.atLeast("obs:nulls-inside-values", 500)
			f.atLeast("obs:huge-round-trips", int64(len(hugeRoundTripKinds)))
			f.atLeast("obs:sized-round-trips", int64(sizedRoundTripCases()))
			f.atLeast("obs:lockstep-drain", 2000)
			f.atLeast("state:never-used", 500)
			f.atLeast("state:used-then-cleared", 500)
			f.atLeast("state:cleared-then-refilled", 500)
			f.atLeast("state:ring-full", 50)
			f.atLeast("state:ring-partial", 50)
			return f.missing
		},
		Files: serFiles,
		Assumptions: []string{
			"elements are JSON-representable ints and valid-UTF-8 strings",
			"a clean run says the property held on the executed states only",
		},
	})
}
