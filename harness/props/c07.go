package props

import (
	"time"

	"godsverif/core"
)

var balKinds = []string{"RedBlackTree", "AVLTree", "BTree"}

// runBalanceCase: counting comparator on every Get/Put/Remove plus structure
// walkers at every quiescent point. The workloads include the amplification
// phases (sorted, reverse, zig-zag, sliding window, one-sided drain, churn)
// that turn latent imbalance into an observable path-length or work violation.
func runBalanceCase(c *core.Ctx, kind string) {
	if (c.Index/3)%11 == 7 {
		// string keys (comparators with ties between spellings; documents from
		// other producers loaded in the middle of the history)
		c.Count("keytype:string", 1)
		runBalanceCaseOf(c, kind, StrDom(c.R.Range(4, 12)), strKey)
		return
	}
	runBalanceCaseOf(c, kind, IntDom(c.R.Range(4, 12)), intKey)
}

func runBalanceCaseOf[K comparable](c *core.Ctx, kind string, d *Dom[K], keyOf func(int) K) {
	a := newKVByKind(c, kind, d)
	m := NewKVMon(c, a, d)
	m.Balance = true
	drv := &kvDriver[K]{c: c, m: m, keyOf: keyOf}
	r := c.R
	large := 3000
	if c.Tier == "thorough" {
		large = 20000
	}
	switch r.Pick(15, 25, 15, 20, 15, 10) {
	case 0:
		drv.smallRandom(r.Range(50, 300))
	case 1:
		drv.buildDrain(sizeClass(r, large))
	case 2:
		n := sizeClass(r, large)
		drv.churn(n, 2*n+r.Range(10, 100))
	case 3:
		w := sizeClass(r, large/4+301)
		steps := 3*w + r.Range(10, 400)
		if r.Chance(1, 20) {
			steps = 10000
			if c.Tier == "thorough" {
				steps = 100000
			}
		}
		drv.slidingWindow(w, steps, r.Bool())
	case 4:
		drv.oneSidedDrain(sizeClass(r, large))
	default:
		// sorted build to a large size, then probes everywhere
		n := sizeClass(r, large)
		for _, i := range orderFamily(r, n, r.Intn(4)) {
			drv.put(keyOf(i))
		}
		for j := 0; j < 200; j++ {
			drv.probe()
		}
		for j := 0; j < n/2; j++ {
			drv.m.Remove(drv.m.Mod.Ents[0].Key)
		}
		for j := 0; j < 100; j++ {
			drv.probe()
		}
	}
	m.Final()
	a.Walk(c, a, a.M.Size())
	c.Nontrivial()
}

func runC07(c *core.Ctx) {
	if plans := exhaustivePlans(c.Tier); c.Index < len(plans) {
		p := plans[c.Index]
		exhaustiveTree(c, p.label, p.mk, p.k, 400000, func(m *KVMon[int, int]) { m.Balance = true }, nil)
		return
	}
	if h := c.Index - len(exhaustivePlans(c.Tier)); h >= 0 && h < hugeCases {
		if h%len(hugeKinds) >= 3 {
			return // TreeMap and TreeBidiMap carry no bound of their own
		}
		runHugeTree(c, h, hugeN(c.Tier), func(m *KVMon[int, int]) { m.Balance = true })
		return
	}
	if j := c.Index - len(exhaustivePlans(c.Tier)) - hugeCases; j >= 0 && j < wideBTreeCases {
		runWideBTree(c, j, func(m *KVMon[int, int]) { m.Balance = true })
		return
	}
	runBalanceCase(c, balKinds[c.Index%len(balKinds)])
}

func init() {
	core.Register(&core.Prop{
		ID:    "C07",
		Title: "Self-balancing trees stay balanced: logarithmic work in every state",
		Cases: func(tier string) int { return tierN(tier, 12000, 240000) },
		Run:   runC07,
		// the longest amplification cases (10^4 / 10^5-step sliding windows with a walk after every call) take seconds
		CaseBudget: func(tier string) time.Duration {
			if tier == "thorough" {
				return 20 * time.Minute
			}
			return 3 * time.Minute
		},
		Rule: "the first cases explore small key universes exhaustively (every reachable tree state x every Put/Remove, see exhaustive_small_scope) under the work and shape oracles; the others run " +
			"RedBlackTree, AVLTree, BTree (orders 3..12,16,32,64) under sorted, reverse, zig-zag, middle-out, block and random builds, drains in the same families, churn, sliding windows (up to 10^4 steps quick / 10^5 thorough), one-sided drains; n up to 3000 (quick) / 20000 (thorough). " +
			"Every Get/Put/Remove is measured with a counting comparator against the stated per-call bound (n = larger of the sizes before and after); the exported structure is walked after every call while n <= 300 and every 16th call above. " +
			"Every case is non-trivial (>= 50 measured calls); distinct = distinct hash of the call list.",
		Floors: func(tier string, m map[string]int64) []string {
			f := &floorCheck{m: m}
			for _, k := range balKinds {
				f.atLeast("work:"+k+".Put", 30000)
				f.atLeast("work:"+k+".Remove", 30000)
				f.atLeast("work:"+k+".Get", 10000)
				f.atLeast("walk:"+k, 30000)
			}
			exhaustiveFloors(tier, f)
			f.atLeast("keytype:string", 300)
			f.atLeast("obs:wide-btree-cases", wideBTreeCases)
			f.atLeast("walk:BTree-height>=4", 1000)
			f.atLeast("walk:RedBlackTree-ratio>1.5", 100)
			return f.missing
		},
		Files: []string{"trees/redblacktree/redblacktree.go", "trees/avltree/avltree.go", "trees/btree/btree.go"},
		Assumptions: []string{
			"the comparator-call bound is evaluated with n = max(size before, size after) (the lenient reading of 'a tree with n keys')",
			"red-black path lengths are counted in nodes from the root to each NIL leaf",
			"a fault that degrades balance so slowly that no stated bound is crossed within the executed histories is not seen",
		},
	})
}
