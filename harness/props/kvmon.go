package props

import (
	"encoding/json"
	"godsverif/core"
	"strings"

	"github.com/emirpasic/gods/v2/maps/treebidimap"
	"github.com/emirpasic/gods/v2/maps/treemap"
)

// KVMon shadows one key-value container with the abstract map and applies
// the oracles selected by the flags: Map (C01), Nav (C02), Balance (C07),
// Bidi (C10).
type KVMon[K comparable, V comparable] struct {
	c   *core.Ctx
	A   *KV[K, V]
	Mod *KVModel[K, V]
	Inv *KVModel[V, K] // bidirectional maps: value class -> key
	D   *Dom[K]
	VD  []V // value alphabet for bidi probing (nil otherwise)

	Map, Nav, Balance, Bidi bool
	calls                   int
}

func NewKVMon[K comparable, V comparable](c *core.Ctx, a *KV[K, V], d *Dom[K]) *KVMon[K, V] {
	m := &KVMon[K, V]{c: c, A: a, Mod: NewKVModel[K, V](a.KCmp), D: d}
	if a.GetKey != nil {
		m.Inv = NewKVModel[V, K](a.VCmp)
	}
	return m
}

func (m *KVMon[K, V]) n() int { return m.Mod.Len() }

// someKey is a key the monitor may ask the container about when no particular
// key was touched: a live one, else the first of the alphabet - never the zero
// value of K, which need not be in the comparator's domain (a nil pointer).
func (m *KVMon[K, V]) someKey() K {
	if m.n() > 0 {
		return m.Mod.Ents[0].Key
	}
	return m.D.Alpha[0]
}

func (m *KVMon[K, V]) resetCount() {
	if m.A.Count != nil {
		*m.A.Count = 0
	}
}

// checkWork compares the comparator calls of the call just made with the
// stated bound, n being the larger of the sizes before and after.
func (m *KVMon[K, V]) checkWork(op string, nBefore int) {
	if !m.Balance || m.A.Count == nil || m.A.Bound == nil {
		return
	}
	n := nBefore
	if m.n() > n {
		n = m.n()
	}
	used := float64(*m.A.Count)
	bound := m.A.Bound(n)
	m.c.Count("work:"+m.A.Name+"."+op, 1)
	if used > bound {
		m.c.Fail("work", "comparator-calls", "%s%s.%s on a tree with %d keys invoked the comparator %d times, stated bound %.2f", m.A.Name, m.orderStr(), op, n, *m.A.Count, bound)
	}
	if used > 0.6*bound {
		m.c.Count("work:"+m.A.Name+">60%-of-bound", 1)
	}
}

func (m *KVMon[K, V]) orderStr() string {
	if m.A.Order > 0 {
		return "(order " + itoa(m.A.Order) + ")"
	}
	return ""
}

func itoa(i int) string {
	if i == 0 {
		return "0"
	}
	neg := i < 0
	if neg {
		i = -i
	}
	var b [20]byte
	p := len(b)
	for i > 0 {
		p--
		b[p] = byte('0' + i%10)
		i /= 10
	}
	if neg {
		p--
		b[p] = '-'
	}
	return string(b[p:])
}

func (m *KVMon[K, V]) Put(k K, v V) {
	c := m.c
	c.Begin(m.A.Name, "Put", k, v)
	nb := m.n()
	m.resetCount()
	m.A.M.Put(k, v)
	m.modelPut(k, v)
	m.checkWork("Put", nb)
	m.after(k, true)
}

// modelPut applies Put(k, v) to the abstract value.
func (m *KVMon[K, V]) modelPut(k K, v V) {
	c := m.c
	if m.Inv != nil {
		// bidi rule: drop the pair previously held by k and the pair
		// previously holding v, then add (k, v)
		if ov, ok := m.Mod.Get(k); ok {
			m.Inv.Remove(ov)
			m.Mod.Remove(k)
			c.Count("bidi:put-key-present", 1)
		}
		if ok2, has := m.Inv.Get(v); has {
			m.Mod.Remove(ok2)
			m.Inv.Remove(v)
			c.Count("bidi:put-value-present", 1)
		}
		m.Mod.Put(k, v)
		m.Inv.Put(v, k)
	} else {
		m.Mod.Put(k, v)
	}
}

// Derive replaces the container under test by one the LIBRARY derived from it:
// the result of Map under a permutation of the key alphabet (not monotone, so
// the result has to be built by the comparator, not in production order) or of
// Select. A derived TreeMap / TreeBidiMap is a comparator-ordered container
// like any other: the history and all monitors simply continue on it. The
// model is rebuilt from the pairs the container listed just before (checked
// against the model first), through the same Put rule, in iteration order.
func (m *KVMon[K, V]) Derive() {
	switch m.A.Raw.(type) {
	case *treemap.Map[K, V], *treebidimap.Map[K, V]:
	default:
		return
	}
	zk := m.someKey()
	r := m.c.R
	m.c.ObserveNow()
	m.calls = 15
	m.after(zk, false)
	keys := append([]K(nil), m.A.M.Keys()...)
	vals := make([]V, len(keys))
	for i, k := range keys {
		vals[i], _ = m.A.M.Get(k)
	}
	alpha := m.D.Alpha
	perm := r.Perm(len(alpha))
	f := func(k K) K {
		for i, a := range alpha {
			if identical(a, k) {
				return alpha[perm[i]]
			}
		}
		return k
	}
	keep := func(k K) bool { return hashVals([]K{k})%3 != 0 }
	sel := r.Intn(3) == 0
	if sel {
		m.c.Begin(m.A.Name, "Select", "a third of the keys rejected; the history continues on the result")
	} else {
		m.c.Begin(m.A.Name, "Map", "keys permuted within the alphabet; the history continues on the result", perm)
	}
	cmN := NamedCmp[K]{Name: m.A.CmpName, F: m.A.KCmp}
	oldFresh, oldName, oldCount := m.A.Fresh, m.A.CmpName, m.A.Count
	if oldCount != nil {
		*oldCount = -1 << 40 // n insertions into the result: no per-call bound applies
	}
	var na *KV[K, V]
	switch t := m.A.Raw.(type) {
	case *treemap.Map[K, V]:
		var d *treemap.Map[K, V]
		if sel {
			d = t.Select(func(k K, v V) bool { return keep(k) })
		} else {
			d = t.Map(func(k K, v V) (K, V) { return f(k), v })
		}
		na = newTreeMapOn[K, V](cmN, func() any { return d })
	case *treebidimap.Map[K, V]:
		var d *treebidimap.Map[K, V]
		if sel {
			d = t.Select(func(k K, v V) bool { return keep(k) })
		} else {
			d = t.Map(func(k K, v V) (K, V) { return f(k), v })
		}
		na = newTreeBidiOn[K, V](cmN, NamedCmp[V]{Name: "values", F: m.A.VCmp}, func() any { return d })
	}
	na.Fresh, na.CmpName = oldFresh, oldName
	if oldCount != nil {
		// the result keeps the receiver's comparator, i.e. the closure that counts
		// into the receiver's counter: the monitor must go on resetting THAT one
		na.Count = oldCount
	}
	m.A = na
	m.resetCount()
	m.Mod.Clear()
	if m.Inv != nil {
		m.Inv.Clear()
	}
	for i, k := range keys {
		if sel {
			if keep(k) {
				m.modelPut(k, vals[i])
			}
		} else {
			m.modelPut(f(k), vals[i])
		}
	}
	m.c.Count("obs:derived-container", 1)
	m.c.ObserveNow()
	m.calls = 15
	m.after(zk, true)
}

func (m *KVMon[K, V]) Remove(k K) {
	c := m.c
	c.Begin(m.A.Name, "Remove", k)
	nb := m.n()
	present := m.Mod.Has(k)
	var before snapshotKV[K, V]
	snap := !present && m.Map && !c.InGap()
	if snap {
		before = m.snapshot()
	}
	if present && (m.Balance || m.Map) {
		m.classifyRemove(k)
	}
	m.resetCount()
	m.A.M.Remove(k)
	if m.Inv != nil {
		if ov, ok := m.Mod.Get(k); ok {
			m.Inv.Remove(ov)
		}
	}
	m.Mod.Remove(k)
	m.checkWork("Remove", nb)
	if present {
		c.Count("obs:remove-present", 1)
	} else {
		c.Count("obs:remove-absent", 1)
		if snap {
			after := m.snapshot()
			if !before.equal(after, m.A.Sorted || m.A.Linked) {
				c.Fail("remove-absent", "changed", "%s.Remove(%v) of an absent key changed the container: before keys=%s values=%s size=%d, after keys=%s values=%s size=%d",
					m.A.Name, k, short(before.keys), short(before.vals), before.size, short(after.keys), short(after.vals), after.size)
			}
		}
	}
	m.after(k, true)
}

func (m *KVMon[K, V]) Get(k K) {
	m.c.Begin(m.A.Name, "Get", k)
	nb := m.n()
	m.resetCount()
	m.checkGet(k)
	m.checkWork("Get", nb)
}

func (m *KVMon[K, V]) Clear() {
	m.c.Begin(m.A.Name, "Clear")
	m.A.M.Clear()
	m.Mod.Clear()
	if m.Inv != nil {
		m.Inv.Clear()
	}
	zk := m.someKey()
	m.after(zk, true)
}

// Reload serialises the container and loads the document back into the same
// container: a no-op on the abstract map that rebuilds the whole internal
// structure by another route (bulk builders, sorted-input shortcuts). What the
// reloaded structure is worth shows in the calls that follow. Only for key
// types encoding/json can write as object keys; a failing ToJSON or FromJSON
// is the business of C11/C12 and ends the attempt quietly.
func (m *KVMon[K, V]) Reload() {
	switch any(*new(K)).(type) {
	case int, string:
	default:
		return
	}
	if m.A.JSON == nil {
		return
	}
	data, err := m.A.JSON.ToJSON()
	if err != nil {
		return
	}
	m.c.Begin(m.A.Name, "FromJSON(own ToJSON)", len(data))
	if m.A.Count != nil {
		*m.A.Count = -1 << 40 // n insertions: no per-call bound applies
	}
	err = m.A.JSON.FromJSON(data)
	m.resetCount()
	if err != nil {
		m.c.Count("obs:reload-refused", 1)
		return
	}
	m.c.Count("obs:reload-own-json", 1)
	zk := m.someKey()
	if m.n() > 0 {
		zk = m.Mod.Ents[m.c.R.Intn(m.n())].Key
	}
	m.after(zk, true)
}

// ReloadForeign loads a document that some other producer wrote: the live
// string keys plus spellings of them that the comparator may or may not
// identify (upper/lower case). Which spelling and value survive depends on the
// loader (and on Go's map iteration order), so the model is re-read from the
// container afterwards; what is checked is everything that must hold for ANY
// outcome - the structure walkers (node count = Size(), shape), sortedness,
// and all later calls against the resynchronised model.
func (m *KVMon[K, V]) ReloadForeign() {
	if _, ok := any(*new(K)).(string); !ok || m.A.JSON == nil || m.Inv != nil {
		return
	}
	doc := map[string]V{}
	for _, e := range m.Mod.Ents {
		k := any(e.Key).(string)
		doc[k] = e.Val
		if m.c.R.Bool() {
			doc[strings.ToUpper(k)] = e.Val
		}
		if m.c.R.Bool() {
			doc[strings.ToLower(k)] = e.Val
		}
	}
	data, err := json.Marshal(doc)
	if err != nil {
		return
	}
	m.c.Begin(m.A.Name, "FromJSON(foreign document)", string(data))
	if m.A.Count != nil {
		*m.A.Count = -1 << 40
	}
	err = m.A.JSON.FromJSON(data)
	if err != nil {
		m.resetCount()
		m.c.Count("obs:reload-refused", 1)
		return
	}
	// resynchronise the model with whatever the loader chose
	m.Mod.Clear()
	for _, k := range m.A.M.Keys() {
		v, _ := m.A.M.Get(k)
		m.Mod.Put(k, v)
	}
	m.resetCount()
	m.c.Count("obs:reload-foreign-json", 1)
	if sz := m.A.M.Size(); sz != m.n() {
		m.c.Fail("size", "after-foreign-load", "%s.Size() = %d after FromJSON(%s), but Keys() lists %d distinct keys", m.A.Name, sz, data, m.n())
	}
	zk := m.someKey()
	if m.n() > 0 {
		zk = m.Mod.Ents[0].Key
	}
	m.calls = 15
	m.after(zk, true)
}

// ReloadForeignBidi loads, into a bidirectional map, a document that some other
// producer wrote: the live pairs in a random order plus members that repeat a
// live value under another key, repeat a key with another value, or both. Which
// of the colliding pairs survives is up to the loader (C12 judges that); what
// C10 states must hold for ANY outcome of a successful load: no two keys share
// a value, Get and GetKey are inverse, Size = len(Keys) = len(Values), and the
// history continues against the model re-read from the container.
func (m *KVMon[K, V]) ReloadForeignBidi() {
	if m.A.JSON == nil || m.Inv == nil {
		return
	}
	keyText := func(k K) (string, bool) {
		switch x := any(k).(type) {
		case string:
			b, err := json.Marshal(x)
			return string(b), err == nil
		case int:
			return "\"" + itoa(x) + "\"", true
		}
		return "", false
	}
	r := m.c.R
	type member struct{ k, v string }
	var doc []member
	add := func(k K, v V) {
		kt, ok := keyText(k)
		vb, err := json.Marshal(v)
		if ok && err == nil {
			doc = append(doc, member{kt, string(vb)})
		}
	}
	if _, ok := keyText(*new(K)); !ok {
		return
	}
	for _, e := range m.Mod.Ents {
		if r.Chance(9, 10) {
			add(e.Key, e.Val)
		}
	}
	for i, extra := 0, r.Range(1, 4); i < extra; i++ {
		k := m.D.Val(r)
		var v V
		if m.n() > 0 && r.Chance(2, 3) {
			v = m.Mod.Ents[r.Intn(m.n())].Val // a value some other key holds already
		} else if len(m.VD) > 0 {
			v = m.VD[r.Intn(len(m.VD))]
		}
		add(k, v)
		if r.Chance(1, 3) && len(m.VD) > 0 {
			add(m.D.Val(r), v) // the same value under two new keys
		}
	}
	for i := len(doc) - 1; i > 0; i-- {
		j := r.Intn(i + 1)
		doc[i], doc[j] = doc[j], doc[i]
	}
	var sb strings.Builder
	sb.WriteByte('{')
	for i, e := range doc {
		if i > 0 {
			sb.WriteByte(',')
		}
		sb.WriteString(e.k + ":" + e.v)
	}
	sb.WriteByte('}')
	data := []byte(sb.String())
	m.c.Begin(m.A.Name, "FromJSON(foreign document)", sb.String())
	if err := m.A.JSON.FromJSON(data); err != nil {
		m.c.Count("obs:reload-refused", 1)
		return
	}
	m.c.Count("obs:bidi-foreign-load", 1)
	m.Mod.Clear()
	m.Inv.Clear()
	ks := append([]K(nil), m.A.M.Keys()...)
	for _, k := range ks {
		v, ok := m.A.M.Get(k)
		if !ok {
			m.c.Fail("bidi-load", "key-without-get", "%s after FromJSON(%s): Keys() lists %v but Get(%v) = (_, false)", m.A.Name, data, k, k)
		}
		if ok2, has := m.Inv.Get(v); has && !m.sameKey(ok2, k) {
			m.c.Fail("bidi-load", "shared-value", "%s after FromJSON(%s): keys %v and %v both map to value %v (not one-to-one)", m.A.Name, data, ok2, k, v)
		}
		m.Mod.Put(k, v)
		m.Inv.Put(v, k)
	}
	if sz, nv := m.A.M.Size(), len(m.A.M.Values()); sz != m.n() || nv != m.n() {
		m.c.Fail("bidi-load", "size", "%s after FromJSON(%s): Size() = %d, len(Values()) = %d, Keys() lists %d distinct keys", m.A.Name, data, sz, nv, m.n())
	}
	zk := m.someKey()
	if m.n() > 0 {
		zk = m.Mod.Ents[0].Key
	}
	m.c.ObserveNow()
	m.calls = 15
	m.after(zk, true)
}

func (m *KVMon[K, V]) checkGet(k K) {
	v, ok := m.A.M.Get(k)
	wv, wok := m.Mod.Get(k)
	if ok != wok || v != wv {
		m.c.Fail("get", presentClass(wok), "%s.Get(%v) = (%v,%v), abstract map says (%v,%v) [%d live keys]", m.A.Name, k, v, ok, wv, wok, m.n())
	}
	m.c.Count("obs:Get", 1)
}

func presentClass(p bool) string {
	if p {
		return "present"
	}
	return "absent"
}

type snapshotKV[K comparable, V comparable] struct {
	keys []K
	vals []V
	size int
}

func (m *KVMon[K, V]) snapshot() snapshotKV[K, V] {
	return snapshotKV[K, V]{keys: append([]K(nil), m.A.M.Keys()...), vals: append([]V(nil), m.A.M.Values()...), size: m.A.M.Size()}
}

func (s snapshotKV[K, V]) equal(o snapshotKV[K, V], ordered bool) bool {
	if s.size != o.size {
		return false
	}
	if ordered {
		return eqSlices(s.keys, o.keys) && eqSlices(s.vals, o.vals)
	}
	return sameMultiset(s.keys, o.keys) && sameMultiset(s.vals, o.vals)
}

// after runs the selected oracles at the quiescent point following a call.
func (m *KVMon[K, V]) after(touched K, mutated bool) {
	c := m.c
	m.calls++
	if !c.Observe() {
		return
	}
	n := m.n()
	full := n <= 64 || (n <= 1000 && m.calls%16 == 0) || m.calls%64 == 0
	if m.Map || m.Bidi {
		if sz := m.A.M.Size(); sz != n {
			c.Fail("size", "", "%s.Size() = %d, abstract map has %d live keys", m.A.Name, sz, n)
		}
		if e := m.A.M.Empty(); e != (n == 0) {
			c.Fail("empty", "", "%s.Empty() = %v with %d live keys", m.A.Name, e, n)
		}
	}
	if m.Map {
		m.checkGet(touched)
		m.probeGets()
		if full {
			m.checkKeysValues()
		}
	}
	if m.Bidi {
		m.checkBidi(full)
	}
	if m.Nav && m.A.Sorted {
		m.checkNav(full)
	}
	if m.Balance && m.A.Walk != nil && (n <= 300 || m.calls%16 == 0) {
		m.A.Walk(c, m.A, m.A.M.Size())
	}
	if full {
		h := core.Mix(core.HashString(m.A.Name), uint64(m.A.Order))
		for i := range m.Mod.Ents {
			h = core.Mix(h, hashVals([]K{m.Mod.Ents[i].Key}), hashVals([]V{m.Mod.Ents[i].Val}))
		}
		if m.Balance || m.Map {
			h = core.Mix(h, m.shapeHash())
		}
		c.State(h)
	}
}

// Final runs the oracles once more at the end of a case, whatever the
// observation schedule.
func (m *KVMon[K, V]) Final() {
	m.c.ObserveNow()
	zk := m.someKey()
	if m.n() > 0 {
		zk = m.Mod.Ents[0].Key
	}
	m.calls = 15 // force the full comparison
	m.after(zk, false)
}

// probeGets asks for 3-6 keys: present, absent, below min, above max,
// between neighbours.
func (m *KVMon[K, V]) probeGets() {
	r := m.c.R
	n := m.n()
	if n > 0 {
		m.checkGet(m.Mod.Ents[r.Intn(n)].Key)
		m.checkGet(m.Mod.Ents[0].Key)
		m.checkGet(m.Mod.Ents[n-1].Key)
	}
	m.checkGet(m.D.Val(r))
	m.checkGet(m.D.Probe[r.Intn(len(m.D.Probe))])
}

// checkKeysValues: same length as the model, every live key exactly once,
// each reported key was actually Put, values position-aligned where stated.
func (m *KVMon[K, V]) checkKeysValues() {
	c := m.c
	n := m.n()
	ks := m.A.M.Keys()
	vs := m.A.M.Values()
	if len(ks) != n {
		c.Fail("keys", "length", "%s.Keys() has %d entries %s, abstract map has %d live keys %s", m.A.Name, len(ks), short(ks), n, short(m.Mod.Keys()))
	}
	if len(vs) != n {
		c.Fail("values", "length", "%s.Values() has %d entries, abstract map has %d live keys", m.A.Name, len(vs), n)
	}
	used := make([]bool, n)
	wantVals := make([]V, 0, n)
	for i, k := range ks {
		p, ok := m.Mod.find(k)
		if !ok {
			c.Fail("keys", "not-live", "%s.Keys() lists %v which is not a live key; keys %s", m.A.Name, k, short(ks))
		}
		if used[p] {
			c.Fail("keys", "duplicate", "%s.Keys() lists key %v (class of %v) more than once: %s", m.A.Name, k, m.Mod.Ents[p].Key, short(ks))
		}
		used[p] = true
		if !m.Mod.seenIn(p, k) {
			c.Fail("keys", "never-put", "%s.Keys() lists %v, which was never Put (class of %v)", m.A.Name, k, m.Mod.Ents[p].Key)
		}
		if m.A.Aligned && vs[i] != m.Mod.Ents[p].Val {
			c.Fail("values", "misaligned", "%s: Keys()[%d] = %v but Values()[%d] = %v; the current value of that key is %v", m.A.Name, i, k, i, vs[i], m.Mod.Ents[p].Val)
		}
		wantVals = append(wantVals, m.Mod.Ents[p].Val)
	}
	if !m.A.Aligned && !sameMultiset(vs, wantVals) {
		c.Fail("values", "multiset", "%s.Values() = %s is not the multiset of current values %s", m.A.Name, short(vs), short(wantVals))
	}
	ruin(ks)
	ruin(vs)
	c.Count("obs:Keys+Values", 1)
}

// shapeHash fingerprints the exported structure (so that "distinct states"
// counts shapes, not only contents).
func (m *KVMon[K, V]) shapeHash() uint64 {
	if sh, ok := any(m.A.Raw).(interface{ String() string }); ok && (m.A.Name == "RedBlackTree" || m.A.Name == "AVLTree" || m.A.Name == "BTree") && m.n() <= 64 {
		return core.HashString(sh.String())
	}
	return 0
}
