#!/bin/bash
# MANIFEST.setup_cmd: warm the Go build cache for the three harness flavours (plain, cover, race), offline.
set -e
VERIF="$(cd "$(dirname "${BASH_SOURCE[0]}")" && pwd)"
export GOFLAGS=-mod=mod GOPROXY=off GOSUMDB=off GOTOOLCHAIN=local
mkdir -p "$VERIF/.build/setup"
cd "$VERIF/harness"
PK=$(cd /repo && go list ./... | grep -v /examples | grep -v /testutils | tr '\n' ',' | sed 's/,$//')
go build -cover -covermode=set "-coverpkg=$PK,godsverif/cmd/vmon" -o "$VERIF/.build/setup/vmon-cover" ./cmd/vmon
go build -o "$VERIF/.build/setup/vmon-plain" ./cmd/vmon
go build -race -o "$VERIF/.build/setup/vmon-race" ./cmd/vmon
"$VERIF/.build/setup/vmon-race" list > /dev/null
echo "setup ok"
