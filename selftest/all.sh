#!/bin/bash
# selftest/all.sh [pattern] [tier] — run every mutant (matching pattern) and collect selftest/results.jsonl
cd "$(dirname "$0")/.."
PAT="${1:-}"; TIER="${2:-quick}"
ls mutants/*${PAT}*.patch | xargs -P 4 -I{} ./selftest/run.sh {} "$TIER" | tee selftest/results_${PAT:-all}_$TIER.jsonl
