package props

import (
	"fmt"

	"godsverif/core"
)

// kvDriver produces the order families of DESIGN §3 on one monitored
// container. It consults only the abstract model (never the implementation's
// answers), so the call list of a case does not depend on the code under test.
type kvDriver[K comparable] struct {
	c     *core.Ctx
	m     *KVMon[K, int]
	keyOf func(i int) K // wide key space, ascending in the natural order
	next  int           // unique values: a stale value identifies the Put it came from
	vals  []int         // if set, values come from this small alphabet (bidi maps)
}

func (d *kvDriver[K]) val() int {
	if d.vals != nil {
		return d.vals[d.c.R.Intn(len(d.vals))]
	}
	d.next++
	return d.next
}

func intKey(i int) int { return i * 6 }

func strKey(i int) string { return fmt.Sprintf("%c%05d", "kK"[i&1], i/2) }

func (d *kvDriver[K]) put(k K) { d.m.Put(k, d.val()) }

// sizeClass draws a target size: ~70% <= 24, ~25% <= 300, ~5% large.
func sizeClass(r *core.R, large int) int {
	switch x := r.Intn(100); {
	case x < 70:
		return r.Range(1, 24)
	case x < 95:
		return r.Range(25, 300)
	default:
		return r.Range(301, large)
	}
}

// order returns the indices 0..n-1 in one of the order families.
func orderFamily(r *core.R, n int, fam int) []int {
	out := make([]int, 0, n)
	switch fam % 6 {
	case 0: // ascending
		for i := 0; i < n; i++ {
			out = append(out, i)
		}
	case 1: // descending
		for i := n - 1; i >= 0; i-- {
			out = append(out, i)
		}
	case 2: // zig-zag outside-in
		for lo, hi := 0, n-1; lo <= hi; lo, hi = lo+1, hi-1 {
			out = append(out, lo)
			if hi != lo {
				out = append(out, hi)
			}
		}
	case 3: // zig-zag inside-out (middle-out)
		mid := n / 2
		out = append(out, mid)
		for d := 1; len(out) < n; d++ {
			if mid-d >= 0 {
				out = append(out, mid-d)
			}
			if mid+d < n {
				out = append(out, mid+d)
			}
		}
	case 4: // random
		out = r.Perm(n)
	default: // blocks: ascending runs placed in descending block order
		b := r.Range(2, 9)
		for start := ((n - 1) / b) * b; start >= 0; start -= b {
			for i := start; i < start+b && i < n; i++ {
				out = append(out, i)
			}
		}
	}
	return out
}

var orderNames = []string{"ascending", "descending", "zigzag-outside-in", "middle-out", "random", "descending-blocks"}

func (d *kvDriver[K]) probe() {
	r := d.c.R
	if x := r.Intn(50); x < 2 {
		d.m.Reload()
		return
	} else if x == 2 {
		d.m.ReloadForeign()
		return
	} else if x == 3 {
		d.m.Derive()
		return
	}
	if d.m.Nav && d.m.A.Sorted && r.Intn(3) == 0 {
		// navigation reads as part of the history (memoised extremes and
		// floor/ceiling hints are wrong right after the call that should have
		// invalidated them, and repaired by the next unrelated read)
		d.m.NavOp()
		return
	}
	if d.m.GetKey() && r.Intn(3) == 0 {
		return
	}
	if n := d.m.n(); n > 0 && r.Bool() {
		d.m.Get(d.m.Mod.Ents[r.Intn(n)].Key)
	} else {
		d.m.Get(d.m.D.AnyVal(r))
	}
}

// smallRandom: dense collisions over the small alphabet.
func (d *kvDriver[K]) smallRandom(steps int) {
	r := d.c.R
	dom := d.m.D
	for s := 0; s < steps; s++ {
		switch r.Pick(45, 30, 15, 5, 1) {
		case 0:
			d.m.Put(dom.Val(r), d.val())
		case 1:
			if n := d.m.n(); n > 0 && r.Chance(3, 4) {
				d.m.Remove(d.m.Mod.Ents[r.Intn(n)].Key)
			} else {
				d.m.Remove(dom.Val(r))
			}
		case 2:
			d.probe()
		case 3:
			d.m.Remove(dom.Probe[r.Intn(len(dom.Probe))]) // certainly absent
		default:
			d.m.Clear()
		}
	}
}

func (d *kvDriver[K]) buildDrain(n int) {
	r := d.c.R
	bf, df := r.Intn(6), r.Intn(6)
	d.c.Note("build %d keys %s, drain %s", n, orderNames[bf], orderNames[df])
	for _, i := range orderFamily(r, n, bf) {
		d.put(d.keyOf(i))
		if r.Chance(1, 8) {
			d.probe()
		}
	}
	for _, i := range orderFamily(r, n, df) {
		d.m.Remove(d.keyOf(i))
		if r.Chance(1, 8) {
			d.probe()
		}
	}
}

func (d *kvDriver[K]) churn(n, steps int) {
	r := d.c.R
	d.c.Note("churn at size ~%d for %d steps", n, steps)
	for _, i := range orderFamily(r, n, r.Intn(6)) {
		d.put(d.keyOf(i * 2))
	}
	for s := 0; s < steps; s++ {
		if d.m.n() > 0 && (d.m.n() > n || r.Bool()) {
			d.m.Remove(d.m.Mod.Ents[r.Intn(d.m.n())].Key)
		} else {
			d.put(d.keyOf(r.Intn(4*n + 4)))
		}
		if r.Chance(1, 6) {
			d.probe()
		}
	}
}

func (d *kvDriver[K]) slidingWindow(w, steps int, up bool) {
	d.c.Note("sliding window of %d keys for %d steps (ascending=%v)", w, steps, up)
	base := 0
	if !up {
		base = steps + w + 1
	}
	at := func(i int) K {
		if up {
			return d.keyOf(i)
		}
		return d.keyOf(base - i)
	}
	for i := 0; i < steps; i++ {
		d.put(at(i))
		if i >= w {
			d.m.Remove(at(i - w))
		}
		if d.c.R.Chance(1, 10) {
			d.probe()
		}
	}
}

func (d *kvDriver[K]) oneSidedDrain(n int) {
	r := d.c.R
	d.c.Note("one-sided drain on %d keys", n)
	for _, i := range orderFamily(r, n, r.Intn(6)) {
		d.put(d.keyOf(i))
	}
	for round := 0; round < 3 && d.m.n() > 1; round++ {
		cnt := d.m.n() / 2
		low := r.Bool()
		for j := 0; j < cnt; j++ {
			if low {
				d.m.Remove(d.m.Mod.Ents[0].Key)
			} else {
				d.m.Remove(d.m.Mod.Ents[d.m.n()-1].Key)
			}
		}
		d.probe()
		if r.Bool() {
			for j := 0; j < cnt/2; j++ {
				d.put(d.keyOf(r.Intn(2*n + 2)))
			}
		}
	}
}

// neighbourhood: after building n keys, bursts of Get/Put/Remove aimed at a
// focus key and its immediate neighbours in key order, with long gaps between
// the monitor's own observations. Caches of "the last node found", cursors and
// hints go wrong exactly on such sequences (Get(p), Remove(successor of p),
// Remove(p) or Put(p), Get(p)) and are repaired by any unrelated lookup - such
// as the probes a monitor makes when it observes after every call.
func (d *kvDriver[K]) neighbourhood(n, bursts int) {
	r := d.c.R
	d.c.Note("neighbourhood bursts on %d keys", n)
	for _, i := range orderFamily(r, n, r.Intn(6)) {
		d.put(d.keyOf(i))
	}
	d.m.Final()
	d.c.SetGapMax(24)
	for b := 0; b < bursts && d.m.n() > 4; b++ {
		f := r.Intn(d.m.n())
		var focus []K
		for p := f - 2; p <= f+2; p++ {
			if p >= 0 && p < d.m.n() {
				focus = append(focus, d.m.Mod.Ents[p].Key)
			}
		}
		for s := r.Range(4, 10); s > 0; s-- {
			k := focus[r.Intn(len(focus))]
			switch r.Pick(40, 25, 35) {
			case 0:
				if d.m.Nav && r.Bool() {
					d.m.NavOp()
				} else {
					d.m.Get(k)
				}
			case 1:
				d.m.Remove(k)
			default:
				d.put(k) // new value for a present key, or re-insertion of a removed one
			}
		}
		d.c.Count("obs:neighbourhood-bursts", 1)
	}
	d.m.Final()
}

// bigOrderBTree: B-trees of order >= 16 only get three or more levels, with
// inner nodes that borrow and merge, when they hold order^2 keys and more.
func (d *kvDriver[K]) bigOrderBTree() {
	r := d.c.R
	order := d.m.A.Order
	n := order * order * r.Range(1, 3)
	if n > 4000 {
		n = 4000
	}
	d.c.Note("B-tree of order %d with %d keys: build, drain 70%%, refill", order, n)
	for _, i := range orderFamily(r, n, r.Intn(6)) {
		d.put(d.keyOf(i))
	}
	drain := orderFamily(r, n, r.Intn(6))
	for _, i := range drain[:n*7/10] {
		d.m.Remove(d.keyOf(i))
		if r.Chance(1, 50) {
			d.probe()
		}
	}
	for _, i := range drain[:n*3/10] {
		d.put(d.keyOf(i))
	}
	for _, i := range orderFamily(r, n, r.Intn(6)) {
		d.m.Remove(d.keyOf(i))
	}
	d.c.Count("obs:big-order-btree-cases", 1)
}

// runFamily picks one workload family.
func (d *kvDriver[K]) runFamily(large int) {
	r := d.c.R
	if d.m.A.Order >= 16 && d.m.A.Order <= 128 && r.Chance(1, 3) {
		d.bigOrderBTree()
		d.m.Final()
		return
	}
	if r.Chance(1, 8) {
		d.neighbourhood(sizeClass(r, large)+r.Range(0, 80), r.Range(20, 120))
		return
	}
	switch r.Pick(40, 20, 15, 15, 10) {
	case 0:
		d.smallRandom(r.Range(30, 200))
	case 1:
		d.buildDrain(sizeClass(r, large))
	case 2:
		n := sizeClass(r, large)
		d.churn(n, 2*n+r.Range(10, 100))
	case 3:
		w := sizeClass(r, large/4+301)
		d.slidingWindow(w, 3*w+r.Range(10, 200), r.Bool())
	default:
		d.oneSidedDrain(sizeClass(r, large))
	}
	if r.Bool() {
		d.m.Clear()
		d.smallRandom(r.Range(5, 30))
	}
	d.m.Final()
}
