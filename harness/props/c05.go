package props

import (
	"fmt"
	"slices"

	"godsverif/core"

	"github.com/emirpasic/gods/v2/containers"
	"github.com/emirpasic/gods/v2/queues/arrayqueue"
	"github.com/emirpasic/gods/v2/queues/circularbuffer"
	"github.com/emirpasic/gods/v2/queues/linkedlistqueue"
	"github.com/emirpasic/gods/v2/stacks/arraystack"
	"github.com/emirpasic/gods/v2/stacks/linkedliststack"
)

// LinMon shadows a stack, queue or ring buffer with a slice holding the
// elements in removal order (C05's oracle; reused by C11/C12/C15).
type LinMon[T comparable] struct {
	c     *core.Ctx
	Name  string
	C     containers.Container[T]
	Put   func(T)
	Take  func() (T, bool)
	Peek  func() (T, bool)
	Full  func() bool
	Cap   int // 0 = unbounded
	LIFO  bool
	PutOp string
	TakOp string
	Model []T // removal order: Model[0] is removed next
	takes int
}

func newArrayStackMon[T comparable](c *core.Ctx) *LinMon[T] {
	s := arraystack.New[T]()
	return &LinMon[T]{c: c, Name: "ArrayStack", C: s, Put: s.Push, Take: s.Pop, Peek: s.Peek, LIFO: true, PutOp: "Push", TakOp: "Pop"}
}
func newLinkedStackMon[T comparable](c *core.Ctx) *LinMon[T] {
	s := linkedliststack.New[T]()
	return &LinMon[T]{c: c, Name: "LinkedListStack", C: s, Put: s.Push, Take: s.Pop, Peek: s.Peek, LIFO: true, PutOp: "Push", TakOp: "Pop"}
}
func newArrayQueueMon[T comparable](c *core.Ctx) *LinMon[T] {
	q := arrayqueue.New[T]()
	return &LinMon[T]{c: c, Name: "ArrayQueue", C: q, Put: q.Enqueue, Take: q.Dequeue, Peek: q.Peek, PutOp: "Enqueue", TakOp: "Dequeue"}
}
func newLinkedQueueMon[T comparable](c *core.Ctx) *LinMon[T] {
	q := linkedlistqueue.New[T]()
	return &LinMon[T]{c: c, Name: "LinkedListQueue", C: q, Put: q.Enqueue, Take: q.Dequeue, Peek: q.Peek, PutOp: "Enqueue", TakOp: "Dequeue"}
}
func newRingMon[T comparable](c *core.Ctx, capacity int) *LinMon[T] {
	c.Begin("CircularBuffer", "New", capacity)
	q := circularbuffer.New[T](capacity)
	return &LinMon[T]{c: c, Name: "CircularBuffer", C: q, Put: q.Enqueue, Take: q.Dequeue, Peek: q.Peek, Full: q.Full, Cap: capacity, PutOp: "Enqueue", TakOp: "Dequeue"}
}

func (m *LinMon[T]) n() int { return len(m.Model) }

func (m *LinMon[T]) DoPut(v T) {
	m.c.Begin(m.Name, m.PutOp, v)
	m.Put(v)
	if m.LIFO {
		m.Model = slices.Insert(m.Model, 0, v)
	} else {
		if m.Cap > 0 && len(m.Model) == m.Cap {
			m.Model = slices.Delete(m.Model, 0, 1) // a full ring discards exactly the oldest element
			m.c.Count("ring:overwrite", 1)
		}
		m.Model = append(m.Model, v)
	}
	m.Check()
}

func (m *LinMon[T]) DoTake() {
	m.c.Begin(m.Name, m.TakOp)
	v, ok := m.Take()
	var zero T
	if m.n() == 0 {
		if ok || v != zero {
			m.c.Fail("take", "empty", "%s.%s() on empty container = (%v,%v), want (zero,false)", m.Name, m.TakOp, v, ok)
		}
		m.c.Count("obs:take-on-empty", 1)
	} else {
		want := m.Model[0]
		if !ok || v != want {
			m.c.Fail("take", "order", "%s.%s() = (%v,%v), want (%v,true); removal order %s", m.Name, m.TakOp, v, ok, want, short(m.Model))
		}
		m.Model = slices.Delete(m.Model, 0, 1)
		m.takes++
		m.c.Count("obs:take", 1)
	}
	m.Check()
}

func (m *LinMon[T]) DoPeek() {
	m.c.Begin(m.Name, "Peek")
	v, ok := m.Peek()
	var zero T
	if m.n() == 0 {
		if ok || v != zero {
			m.c.Fail("peek", "empty", "%s.Peek() on empty container = (%v,%v), want (zero,false)", m.Name, v, ok)
		}
	} else if !ok || v != m.Model[0] {
		m.c.Fail("peek", "order", "%s.Peek() = (%v,%v), want (%v,true); removal order %s", m.Name, v, ok, m.Model[0], short(m.Model))
	}
	m.c.Count("obs:peek", 1)
	m.Check()
}

func (m *LinMon[T]) DoClear() {
	m.c.Begin(m.Name, "Clear")
	m.C.Clear()
	m.Model = m.Model[:0]
	m.Check()
}

// Check compares Values/Size/Empty/Full with the model.
func (m *LinMon[T]) Check() {
	c := m.c
	if !c.Observe() {
		return
	}
	if sz := m.C.Size(); sz != m.n() {
		c.Fail("size", "", "%s.Size() = %d, model holds %d: %s", m.Name, sz, m.n(), short(m.Model))
	}
	if e := m.C.Empty(); e != (m.n() == 0) {
		c.Fail("empty", "", "%s.Empty() = %v, model holds %d", m.Name, e, m.n())
	}
	if m.Full != nil {
		if f := m.Full(); f != (m.n() == m.Cap) {
			c.Fail("full", "", "%s.Full() = %v with %d of %d elements", m.Name, f, m.n(), m.Cap)
		}
	}
	if m.n() <= 80 || c.R.Intn(16) == 0 {
		vs := m.C.Values()
		if !eqSlices(vs, m.Model) {
			c.Fail("values", "", "%s.Values() = %s, want removal order %s", m.Name, short(vs), short(m.Model))
		}
		ruin(vs)
		c.Count("obs:Values", 1)
		if m.Cap > 0 {
			c.State(core.Mix(uint64(m.Cap), uint64(m.takes%m.Cap), uint64(m.n())))
		}
	}
}

// Step makes one random call with unique item values from next().
func (m *LinMon[T]) Step(next func() T) {
	switch m.c.R.Pick(10, 8, 3, 1) {
	case 0:
		m.DoPut(next())
	case 1:
		m.DoTake()
	case 2:
		m.DoPeek()
	default:
		if m.c.R.Chance(1, 4) {
			m.DoClear()
		} else {
			m.DoPeek()
		}
	}
}

var ringCaps = []int{1, 2, 3, 4, 5, 6, 7, 8, 9, 10, 11, 12, 13, 14, 15, 16, 17, 31, 32, 33, 64}

func ringSweepPlan() (plan [][2]int) {
	for _, cp := range ringCaps {
		for off := 0; off < cp; off++ {
			plan = append(plan, [2]int{cp, off})
		}
	}
	return
}

var ringPlan = ringSweepPlan()

// runRingSweep puts a ring of capacity cp at start offset off and at every
// fill 0..cp, then continues randomly.
func runRingSweep(c *core.Ctx, cp, off int) {
	id := 0
	next := func() int { id++; return id }
	for fill := 0; fill <= cp; fill++ {
		m := newRingMon[int](c, cp)
		for i := 0; i < off; i++ {
			m.DoPut(next())
		}
		for i := 0; i < off; i++ {
			m.DoTake()
		}
		for i := 0; i < fill; i++ {
			m.DoPut(next())
		}
		if m.n() != fill || m.takes%cp != off%cp {
			c.Fail("harness", "", "sweep did not reach the planned state")
		}
		c.Count("ring:sweep-states", 1)
		steps := 4*cp + 8
		if cp > 17 {
			steps = cp + 8
		}
		for s := 0; s < steps; s++ {
			m.Step(next)
		}
	}
	c.Nontrivial()
}

// Fat is an element larger than a memory page (allocation schemes that carve
// nodes out of fixed-size slabs, copy loops that assume word-sized elements).
type Fat struct {
	ID  int
	Pad [600]int64
}

func (f Fat) String() string { return fmt.Sprintf("Fat#%d", f.ID) }

func newLinMonKind[T comparable](c *core.Ctx, kind int) *LinMon[T] {
	switch kind % 6 {
	case 0:
		return newArrayStackMon[T](c)
	case 1:
		return newLinkedStackMon[T](c)
	case 2:
		return newArrayQueueMon[T](c)
	case 3:
		return newLinkedQueueMon[T](c)
	default:
		return newRingMon[T](c, ringCaps[c.R.Intn(len(ringCaps))])
	}
}

// runLinTyped: the same removal-order monitor over another element type.
func runLinTyped[T comparable](c *core.Ctx, kind int, tname string, next func() T) {
	m := newLinMonKind[T](c, kind)
	c.Count("elemtype:"+tname, 1)
	c.Count("elemtype:"+tname+":"+m.Name, 1)
	for s := c.R.Range(20, 150); s > 0; s-- {
		m.Step(next)
	}
	c.ObserveNow()
	m.Check()
	for m.n() > 0 {
		m.DoTake()
	}
	m.DoTake()
	c.Nontrivial()
}

var linElemTypes = []string{"fat-struct", "string", "struct", "pointer"}

func runC05(c *core.Ctx) {
	i := c.Index
	if i%29 == 13 && i >= len(ringPlan)+14 {
		id := 0
		c.SetGaps((i/6)%2 == 1)
		switch core.Mix(uint64(i), 0xe1e)%4 { // (by hash: index arithmetic would tie the type to the container kind)
		case 0:
			runLinTyped(c, i, "fat-struct", func() Fat { id++; f := Fat{ID: id}; f.Pad[0], f.Pad[599] = int64(id), int64(-id); return f })
		case 1:
			runLinTyped(c, i, "string", func() string { id++; return strAlphabet[id%len(strAlphabet)] + itoa(id) })
		case 2:
			runLinTyped(c, i, "struct", func() SK { id++; return SK{id, strAlphabet[id%len(strAlphabet)]} })
		default:
			runLinTyped(c, i, "pointer", func() *PS { id++; return psPool[id%len(psPool)] })
		}
		return
	}
	if h := i - len(ringPlan); h >= 0 && h < 5 {
		runHugeLinear(c, 3+h, hugeLinearN(c.Tier)) // stacks, queues and a ring with 300 000 elements
		return
	}
	if h := i - len(ringPlan) - 5; h >= 0 && h < 9 {
		runMillionOps(c, []int{0, 1, 2, 3, 4, 9, 14, 19, 24}[h]) // four containers and five ring capacities through 2^20 put/take pairs
		return
	}
	if i < len(ringPlan) {
		if ringPlan[i][0] <= 17 || c.Tier == "thorough" || i%7 == 0 {
			runRingSweep(c, ringPlan[i][0], ringPlan[i][1])
		}
		return
	}
	id := 0
	next := func() int { id++; return id }
	if core.Mix(uint64(i), 0xd0b)%5 == 0 {
		// one case in five: items repeat, equal ones next to each other (runs of
		// three over four values) - whoever drops, merges or deduplicates equal
		// neighbours is invisible while every item is unique
		next = func() int { id++; return (id/3)%4 + 1 }
		c.Count("items:repeating-runs", 1)
	}
	c.SetGaps((i/6)%2 == 1)
	var m *LinMon[int]
	switch i % 6 {
	case 0:
		m = newArrayStackMon[int](c)
	case 1:
		m = newLinkedStackMon[int](c)
	case 2:
		m = newArrayQueueMon[int](c)
	case 3:
		m = newLinkedQueueMon[int](c)
	default:
		m = newRingMon[int](c, ringCaps[c.R.Intn(len(ringCaps))])
	}
	// documented constructor precondition (exercised, expected to panic)
	if i%97 == 5 {
		expectPanic(c, "CircularBuffer", "New", func() { circularbuffer.New[int](-c.R.Intn(3)) })
	}
	steps := c.R.Range(10, 200)
	if i%50 == 7 {
		steps = 3000
	}
	if i%601 >= 31 && i%601 <= 35 { // (601 is prime: every container kind gets big cases)
		// sizes and lap counts that small tests never reach: fill to thousands,
		// drain half, refill, many wrap-arounds of a large ring
		if m.Cap > 0 {
			m = newRingMon[int](c, []int{257, 300, 357, 1000, 1024, 4096, c.R.Range(65, 5000), c.R.Range(65, 5000)}[c.R.Intn(8)])
			// a ragged first fill: elements leave while the ring fills up for the
			// first time (storage that grows on demand is moved with a start offset
			// that is not zero, by amounts that are not a power of two)
			for lim := 3 * m.Cap; lim > 0 && m.n() < m.Cap; lim-- {
				if c.R.Intn(3) > 0 {
					m.DoPut(next())
				} else {
					m.DoTake()
				}
			}
			c.Count("obs:big-ring-ragged-fill", 1)
		}
		target := c.R.Range(2000, 6000)
		for round := 0; round < 3; round++ {
			for k := 0; k < target; k++ {
				m.DoPut(next())
			}
			for k := 0; k < target/2; k++ {
				m.DoTake()
			}
		}
		c.Count("obs:big-fill-drain-cases", 1)
		steps = 500
	}
	for s := 0; s < steps; s++ {
		m.Step(next)
	}
	c.ObserveNow()
	m.Check()
	// drain: everything left comes out in model order
	for m.n() > 0 {
		m.DoTake()
	}
	m.DoTake()
	m.DoPeek()
	c.Nontrivial()
}

// expectPanic exercises a documented constructor precondition.
func expectPanic(c *core.Ctx, obj, op string, f func()) {
	c.Begin(obj, op, "invalid-argument")
	panicked := false
	func() {
		defer func() {
			if recover() != nil {
				panicked = true
			}
		}()
		f()
	}()
	if !panicked {
		c.Count("documented-precondition-accepted:"+obj, 1)
	} else {
		c.Count("documented-precondition-panic:"+obj, 1)
	}
}

var linFiles = []string{"stacks/arraystack/arraystack.go", "stacks/linkedliststack/linkedliststack.go", "queues/arrayqueue/arrayqueue.go", "queues/linkedlistqueue/linkedlistqueue.go", "queues/circularbuffer/circularbuffer.go"}

func init() {
	core.Register(&core.Prop{
		ID:    "C05",
		Title: "Stacks are LIFO, queues FIFO, the circular buffer a bounded FIFO",
		Cases: func(tier string) int { return tierN(tier, 40000, 4000000) },
		Run:   runC05,
		ParSkip: func(string) int { return len(ringPlan) + 14 },
		Rule: fmt.Sprintf("cases 0..%d: ring sweep, one case per (capacity, start offset) for capacities %v, each visiting every fill level 0..capacity and continuing randomly (quick runs capacities <= 17 fully and every 7th larger one); "+
			"the other cases: random interleavings of Push/Pop/Peek or Enqueue/Dequeue/Peek and Clear with unique item ids on ArrayStack, LinkedListStack, ArrayQueue, LinkedListQueue, CircularBuffer, followed by a full drain. "+
			"Non-trivial: the case made calls and every one was followed by the Values/Size/Empty/Full comparison; distinct = distinct hash of the call list.", len(ringPlan)-1, ringCaps),
		Floors: func(tier string, m map[string]int64) []string {
			f := &floorCheck{m: m}
			f.atLeast("items:repeating-runs", 2000)
			f.atLeast("ring:sweep-states", 1938) // sum of c*(c+1) for c = 1..17
			f.atLeast("ring:overwrite", 1000)
			f.atLeast("obs:take-on-empty", 1000)
			f.atLeast("obs:take", 20000)
			f.atLeast("obs:big-ring-ragged-fill", 20)
			f.atLeast("obs:million-operation-instances", 9)
			for _, n := range linElemTypes {
				f.atLeast("elemtype:"+n, 100)
				for _, k := range []string{"ArrayStack", "LinkedListStack", "ArrayQueue", "LinkedListQueue", "CircularBuffer"} {
					f.atLeast("elemtype:"+n+":"+k, 5)
				}
			}
			for _, n := range []string{"ArrayStack.Pop", "LinkedListStack.Pop", "ArrayQueue.Dequeue", "LinkedListQueue.Dequeue", "CircularBuffer.Dequeue", "CircularBuffer.Clear"} {
				f.atLeast("call:"+n, 500)
			}
			return f.missing
		},
		Files: linFiles,
		Assumptions: []string{
			"items are unique (ints, strings, structs; pointer elements repeat), so a lost, duplicated or reordered element is identified exactly",
			"ring capacities 1..17, 31..33, 64 in the sweep, up to 5000 in the big cases; element types int, string, struct, pointer (incl. nil) and a struct larger than a page; a clean run says the property held on the executed histories only",
		},
	})
}
