#!/usr/bin/env python3
"""tools/keep_seeded.py <out_dir> <k> <prop> <slug> : runs selftest/seeded.sh on an independently written change and, if all of
(builds, repo suite passes, demo fails with / passes without the change) are confirmed, files it as /verif/seeded/<prop>-<slug>/
(patch.diff, the demonstration, meta.json with what it needs to manifest and what was run). Extra args: further checks to run."""
import json, os, shutil, subprocess, sys, re
out, k, prop, slug = sys.argv[1:5]
extra = sys.argv[5:]
r = subprocess.run(["/verif/selftest/seeded.sh", out, k, prop, "quick"] + extra, capture_output=True, text=True)
line = [l for l in r.stdout.splitlines() if l.startswith("{")][-1]
res = json.loads(line)
ok = res.get("builds") and res.get("repo_suite") == "pass" and res.get("demo_with_change") == "fail" and res.get("demo_without_change") == "pass"
print(line[:700])
if not ok:
    print("NOT CONFIRMED - not kept"); sys.exit(1)
d = f"/verif/seeded/{prop}-{slug}"
os.makedirs(d, exist_ok=True)
shutil.copy(f"{out}/change{k}.diff", f"{d}/patch.diff")
if os.path.exists(f"{out}/demo{k}_test.go"):
    shutil.copy(f"{out}/demo{k}_test.go", f"{d}/demo_test.go"); demo = "demo_test.go"
else:
    shutil.copytree(f"{out}/demo{k}", f"{d}/demo", dirs_exist_ok=True); demo = "demo/main.go"
md = open(f"{out}/change{k}.md").read()
shutil.copy(f"{out}/change{k}.md", f"{d}/author_notes.md")
m = re.search(r"(?is)(needs?|manifest)[^\n]*\n(.{0,900})", md)
meta = {
    "property": prop,
    "origin": "written by an independent sub-agent that saw only the property text and a scratch worktree of /repo (nothing from /verif)",
    "patch": "patch.diff (applies to /repo HEAD with `git -C /repo apply`; never committed there)",
    "demonstration": demo,
    "needs_to_manifest": (m.group(0).strip()[:900] if m else "see author_notes.md"),
    "confirmed_by": "selftest/seeded.sh on a scratch copy of /repo HEAD: go build ./..., go test -vet=off -count=1 ./..., demonstration with and without the change, then the check(s) below (quick tier, VERIF_REPO=<copy>)",
    "confirmation": res,
    "extra_checks": extra,
    "caught_by": [c["check"] for c in res["checks"] if c["exit"] == 1],
    "missed_by": [c["check"] for c in res["checks"] if c["exit"] != 1],
}
json.dump(meta, open(f"{d}/meta.json", "w"), indent=1)
print("kept as", d, "caught_by", meta["caught_by"], "missed_by", meta["missed_by"])
