#!/usr/bin/env python3
"""Regenerates the block between <!-- CATCH-TABLE:BEGIN --> and <!-- CATCH-TABLE:END --> in DESIGN.md from
selftest/results_all_quick.jsonl (development mutants) and seeded/*/meta.json + selftest/seeded_results_quick.jsonl (seeded changes)."""
import json, glob, os, re
V = "/verif"
rows = []
for f in sorted(glob.glob(V + "/selftest/results_all_quick.jsonl")):
    for l in open(f):
        if l.startswith("{"):
            rows.append(json.loads(l))
rows.sort(key=lambda r: r["mutant"])
latest = {}
p = V + "/selftest/seeded_results_quick.jsonl"
if os.path.exists(p):
    for l in open(p):
        if l.startswith("{"):
            r = json.loads(l); latest[r["change"]] = r
out = []
out.append("### Development mutants (mutants/make.py; applied to a scratch copy by selftest/run.sh; quick tier, seed 1)\n")
out.append("| mutant | property | repo suite | caught by its check | first signatures |")
out.append("|---|---|---|---|---|")
caught = 0
for r in rows:
    c = r.get("check_exit") == 1
    caught += c
    sig = "; ".join(s.split("|", 1)[1] for s in r.get("sigs", "").split(";")[:2] if s)
    out.append(f"| {r['mutant']} | {r['property']} | {r.get('repo_suite')} | {'yes' if c else 'NO'} ({r.get('seconds')} s) | {sig} |")
out.append(f"\n{caught} of {len(rows)} development mutants are caught by the quick check of their property. "
           "Mutants marked `fail` in the repo-suite column are also killed by the repository's own tests (kept for completeness).\n")
out.append("### Independently seeded changes (seeded/<id>/: patch.diff, demonstration, meta.json)\n")
out.append("Each was written by a fresh sub-agent that saw only the property text and a scratch worktree of /repo, and was kept only after "
           "`selftest/seeded.sh` confirmed on a scratch copy that it builds, that the repository suite still passes, and that its demonstration fails with and passes without the change.\n")
out.append("| seeded change | property | caught by (quick) | note |")
out.append("|---|---|---|---|")
notes = json.load(open(V + "/seeded/NOTES.json")) if os.path.exists(V + "/seeded/NOTES.json") else {}
n = ok = 0
for d in sorted(glob.glob(V + "/seeded/C*/")):
    name = os.path.basename(d.rstrip("/"))
    meta = json.load(open(d + "meta.json"))
    r = latest.get(name, meta["confirmation"])
    cb = [c["check"] for c in r["checks"] if c["exit"] == 1]
    n += 1; ok += bool(cb)
    out.append(f"| {name} | {meta['property']} | {', '.join(cb) if cb else 'MISSED'} | {notes.get(name, '')} |")
out.append(f"\n{ok} of {n} seeded changes are caught by the quick check of their property.\n")
s = open(V + "/DESIGN.md").read()
blk = "<!-- CATCH-TABLE:BEGIN -->\n" + "\n".join(out) + "\n<!-- CATCH-TABLE:END -->"
if "<!-- CATCH-TABLE:BEGIN -->" in s:
    s = re.sub(r"<!-- CATCH-TABLE:BEGIN -->.*<!-- CATCH-TABLE:END -->", lambda m: blk, s, flags=re.S)
else:
    s += "\n" + blk + "\n"
open(V + "/DESIGN.md", "w").write(s)
print(f"dev mutants {caught}/{len(rows)}, seeded {ok}/{n}")
