package core

import (
	"encoding/json"
	"fmt"
	"os"
	"os/exec"
	"path/filepath"
	"sort"
	"strconv"
	"strings"
	"sync"
	"time"
)

// Concurrent private instances.
//
// Every property is stated per container: what one instance does must not
// depend on what happens to another. A package-level scratch buffer, cache,
// pool or counter inside the library breaks that silently, and only when two
// instances are used at the same time - which a sequence of cases run one
// after the other never does. So a slice of every check's cases is run a
// second time by a race-detector build of the same program, several cases at
// once on goroutines of one process. Each goroutine owns its containers, its
// monitors, its PRNG stream and its statistics and never synchronises with
// the others until all are done; the only memory two of them can both touch
// is the library's own package-level state. Two signals are taken:
//   - a race report with a library frame: two goroutines that share no
//     container touched the same library memory without synchronisation;
//   - the monitors' ordinary verdicts (a case is a pure function of its
//     index, so it must pass here exactly as it does alone).

// ParSkipDefault leaves out the first case indices, where the checks put their
// long deterministic cases (exhaustive small-scope exploration, huge sizes).
const ParSkipDefault = 120

type parResult struct {
	K          int          `json:"k"`
	Goroutines int          `json:"goroutines"`
	Cases      int          `json:"cases"`
	Calls      int64        `json:"calls"`
	Violations []*Violation `json:"violations"`
	Done       bool         `json:"done"`
}

// parTarget is the number of cases re-run concurrently.
func parTarget(tier string, n int) int {
	t := n / 20
	max := 1600
	if tier == "thorough" {
		max = 32000
	}
	if t > max {
		t = max
	}
	if t < 64 {
		t = 64
	}
	return t
}

// ParIndices is the deterministic selection of case indices for the
// concurrent phase.
func ParIndices(p *Prop, tier string, n int) []int {
	skip := ParSkipDefault
	if p.ParSkip != nil {
		skip = p.ParSkip(tier)
	}
	target := parTarget(tier, n)
	m := uint64(1)
	if n-skip > target {
		m = uint64((n - skip) / target)
	}
	var out []int
	for i := skip; i < n; i++ {
		if Mix(uint64(i), 0x9a7)%m == 0 {
			out = append(out, i)
		}
	}
	return out
}

// ParChildMain runs this child's share of the selected cases on g goroutines.
func ParChildMain(p *Prop, tier string, seed uint64, k, w, n, g int, dir string) {
	all := ParIndices(p, tier, n)
	var mine []int
	for j, i := range all {
		if j%w == k {
			mine = append(mine, i)
		}
	}
	type slot struct {
		st    *Stats
		cases int
		viols []*Violation
	}
	slots := make([]*slot, g)
	var wg sync.WaitGroup
	for gi := 0; gi < g; gi++ {
		s := &slot{st: NewStats()}
		slots[gi] = s
		wg.Add(1)
		go func(gi int, s *slot) {
			defer wg.Done()
			seen := map[string]bool{}
			for j := gi; j < len(mine); j += g {
				c := newCtx(p, seed, tier, mine[j], s.st)
				c.Concurrent = true
				c.RunCase(p.Run)
				s.cases++
				if c.Viol != nil && !seen[c.Viol.Sig] && len(s.viols) < 50 {
					seen[c.Viol.Sig] = true
					s.viols = append(s.viols, c.Viol)
				}
				// keep the per-goroutine statistics small
				if len(s.st.States) > 100000 {
					s.st.States = map[uint64]struct{}{}
				}
			}
		}(gi, s)
	}
	wg.Wait()
	res := &parResult{K: k, Goroutines: g, Done: true}
	for _, s := range slots {
		res.Cases += s.cases
		for _, v := range s.st.Calls {
			res.Calls += v
		}
		for _, v := range s.viols {
			v.Par, v.ParK, v.ParW, v.ParG = true, k, w, g
			v.Sig += "|concurrent-private-instances"
			v.Message = "(while " + strconv.Itoa(g) + " goroutines ran cases on private containers concurrently; the case is a pure function of its index and passes alone) " + v.Message
			res.Violations = append(res.Violations, v)
		}
	}
	b, _ := json.Marshal(res)
	os.WriteFile(filepath.Join(dir, fmt.Sprintf("par_result_%d.json", k)), b, 0o644)
}

// RaceBlocks splits race-detector log text into report blocks.
func RaceBlocks(text string) []string {
	var blocks []string
	for _, blk := range strings.Split(text, "==================") {
		if strings.Contains(blk, "WARNING: DATA RACE") {
			blocks = append(blocks, blk)
		}
	}
	return blocks
}

const libPrefix = "github.com/emirpasic/gods/v2/"

// RaceLibrarySig reduces a report to the innermost library frame of each of
// its access stacks (where the shared memory was touched).
func RaceLibrarySig(block string) (sig string, inLibrary bool) {
	var inner []string
	for _, part := range strings.Split(block, "\n\n") {
		if !(strings.Contains(part, "by goroutine") || strings.Contains(part, "by main goroutine")) || strings.Contains(part, "created at") {
			continue
		}
		for _, ln := range strings.Split(part, "\n") {
			ln = strings.TrimSpace(ln)
			if strings.HasPrefix(ln, libPrefix) {
				f := strings.TrimPrefix(ln, libPrefix)
				if i := strings.LastIndex(f, "("); i > 0 && !strings.Contains(f[i:], "*") {
					f = f[:i]
				}
				// one signature for all instantiations: drop "[go.shape...]"
				for {
					a := strings.Index(f, "[")
					b := strings.Index(f, "]")
					if a < 0 || b < a {
						break
					}
					f = f[:a] + f[b+1:]
				}
				inner = append(inner, f)
				break
			}
		}
	}
	if len(inner) == 0 {
		return "", false
	}
	sort.Strings(inner)
	if len(inner) > 2 {
		inner = inner[:2]
	}
	return strings.Join(inner, "~"), true
}

func trimTo(s string, n int) string {
	if len(s) > n {
		return s[:n] + "\n…"
	}
	return s
}

// runParPhase starts the race-built children and folds what they and the
// race detector saw into the run.
func runParPhase(p *Prop, raceExe, tier string, seed uint64, n int, work string, run *RunInfo, addViol func(*Violation)) {
	const w, g = 4, 4
	t0 := time.Now()
	idx := ParIndices(p, tier, n)
	if len(idx) == 0 {
		return
	}
	timeout := 20 * time.Minute
	if tier == "thorough" {
		timeout = 3 * time.Hour
	}
	logBase := filepath.Join(work, "par_race")
	env := append(os.Environ(), "GORACE=halt_on_error=0 history_size=3 log_path="+logBase)
	type cs struct {
		cmd *exec.Cmd
		err error
	}
	children := make([]*cs, w)
	var wg sync.WaitGroup
	for k := 0; k < w; k++ {
		c := &cs{cmd: ParChildCmd(raceExe, p.ID, tier, seed, k, w, n, g, work, env)}
		children[k] = c
		wg.Add(1)
		go func(c *cs) {
			defer wg.Done()
			c.err = runWithTimeout(c.cmd, timeout)
		}(c)
	}
	wg.Wait()
	cases, calls := 0, int64(0)
	for k := 0; k < w; k++ {
		var res parResult
		b, err := os.ReadFile(filepath.Join(work, fmt.Sprintf("par_result_%d.json", k)))
		if err != nil || json.Unmarshal(b, &res) != nil || !res.Done {
			errTail := tailOf(filepath.Join(work, fmt.Sprintf("par_err_%d", k)), 1500)
			if strings.Contains(errTail, libPrefix) && (strings.Contains(errTail, "fatal error:") || strings.Contains(errTail, "panic:")) {
				// the process died inside the library while instances were used concurrently
				addViol(&Violation{Property: p.ID, Sig: strings.Join([]string{p.ID, "process", "concurrent-private-instances", "fatal", fatalClass(errTail)}, "|"),
					Message: fmt.Sprintf("the process running cases on private containers in %d goroutines died inside the library (%v); stderr tail: %s", g, children[k].err, errTail),
					Seed:    seed, Tier: tier, Index: -1, Count: 1, Par: true, ParK: k, ParW: w, ParG: g})
				continue
			}
			run.Inconclusive = append(run.Inconclusive, fmt.Sprintf("concurrent-instances child %d did not complete: %v; stderr: %s", k, children[k].err, oneLine(errTail, 400)))
			continue
		}
		cases += res.Cases
		calls += res.Calls
		for _, v := range res.Violations {
			v.Count = 1
			addViol(v)
		}
	}
	files, _ := filepath.Glob(logBase + ".*")
	total, lib := 0, 0
	sigs := map[string]int{}
	for _, f := range files {
		b, _ := os.ReadFile(f)
		for _, blk := range RaceBlocks(string(b)) {
			total++
			s, in := RaceLibrarySig(blk)
			if !in {
				continue
			}
			lib++
			sigs[s]++
			if sigs[s] == 1 {
				addViol(&Violation{Property: p.ID, Sig: strings.Join([]string{p.ID, "library", "concurrent-private-instances", "data-race", s}, "|"),
					Message: "two goroutines that share no container (each runs its own cases on containers it alone created and uses) touched the same library memory without synchronisation - instances are not independent:\n" + trimTo(strings.TrimSpace(blk), 3000),
					Seed:    seed, Tier: tier, Index: -1, Count: 1, Par: true, ParK: -1, ParW: w, ParG: g})
			}
		}
	}
	if total > lib {
		run.Inconclusive = append(run.Inconclusive, fmt.Sprintf("%d race reports without a library frame in the concurrent-instances phase (the monitors themselves share state?)", total-lib))
	}
	run.Counters["par:cases"] = int64(cases)
	run.Counters["par:library-calls"] = calls
	run.Extra["concurrent_private_instances"] = map[string]any{
		"what":                             "a selection of this check's cases re-run by a -race build, several at a time on goroutines of one process; each goroutine uses only containers it created, so the only memory two of them can share is the library's package-level state",
		"processes":                        w,
		"goroutines_per_process":           g,
		"cases":                            cases,
		"library_calls":                    calls,
		"race_reports_total":               total,
		"race_reports_with_library_frames": lib,
		"wall_s":                           time.Since(t0).Seconds(),
	}
	if cases < len(idx) && len(run.Inconclusive) == 0 && len(run.Violations) == 0 {
		run.Inconclusive = append(run.Inconclusive, fmt.Sprintf("concurrent-instances phase ran %d of %d selected cases", cases, len(idx)))
	}
}

// ParChildCmd builds the command line of one concurrent-instances child.
func ParChildCmd(exe, id, tier string, seed uint64, k, w, n, g int, work string, env []string) *exec.Cmd {
	args := []string{"parchild", "-prop", id, "-tier", tier, "-seed", strconv.FormatUint(seed, 10), "-k", strconv.Itoa(k), "-w", strconv.Itoa(w), "-n", strconv.Itoa(n), "-g", strconv.Itoa(g), "-dir", work}
	cmd := exec.Command(exe, args...)
	cmd.Env = env
	so, _ := os.Create(filepath.Join(work, fmt.Sprintf("par_out_%d", k)))
	se, _ := os.Create(filepath.Join(work, fmt.Sprintf("par_err_%d", k)))
	cmd.Stdout = so
	cmd.Stderr = se
	return cmd
}

// replayPar re-runs the concurrent-instances phase a violation came from.
func replayPar(p *Prop, v *Violation) int {
	raceExe := os.Getenv("VERIF_RACE_EXE")
	if raceExe == "" {
		fmt.Println("this violation was observed while cases ran concurrently under the race detector; VERIF_RACE_EXE is not set (use ./check <ID> --replay <file>)")
		return 2
	}
	work, err := os.MkdirTemp("", "verif-par-replay")
	if err != nil {
		fmt.Println(err)
		return 2
	}
	defer os.RemoveAll(work)
	n := p.Cases(v.Tier)
	logBase := filepath.Join(work, "par_race")
	env := append(os.Environ(), "GORACE=halt_on_error=0 history_size=3 log_path="+logBase)
	reproduced := false
	for k := 0; k < v.ParW; k++ {
		if v.ParK >= 0 && k != v.ParK {
			continue
		}
		cmd := ParChildCmd(raceExe, p.ID, v.Tier, v.Seed, k, v.ParW, n, v.ParG, work, env)
		err := runWithTimeout(cmd, time.Hour)
		var res parResult
		b, e2 := os.ReadFile(filepath.Join(work, fmt.Sprintf("par_result_%d.json", k)))
		if e2 != nil || json.Unmarshal(b, &res) != nil || !res.Done {
			fmt.Printf("REPRODUCED property=%s: concurrent-instances process %d did not survive (%v): %s\n", p.ID, k, err, tailOf(filepath.Join(work, fmt.Sprintf("par_err_%d", k)), 3000))
			reproduced = true
			continue
		}
		for _, rv := range res.Violations {
			fmt.Printf("REPRODUCED property=%s sig=%s\n  %s\n", p.ID, rv.Sig, rv.Message)
			reproduced = true
		}
	}
	files, _ := filepath.Glob(logBase + ".*")
	seen := map[string]bool{}
	for _, f := range files {
		b, _ := os.ReadFile(f)
		for _, blk := range RaceBlocks(string(b)) {
			if s, in := RaceLibrarySig(blk); in && !seen[s] {
				seen[s] = true
				fmt.Printf("REPRODUCED property=%s sig=%s|library|concurrent-private-instances|data-race|%s\n%s\n", p.ID, p.ID, s, strings.TrimSpace(blk))
				reproduced = true
			}
		}
	}
	if reproduced {
		return 1
	}
	fmt.Printf("the concurrent-instances phase of %s (%s, seed %d) ran without violation\n", p.ID, v.Tier, v.Seed)
	return 0
}
