package props

import (
	"cmp"
	"sort"
	"encoding/json"
	"fmt"
	"slices"

	"godsverif/core"

	"github.com/emirpasic/gods/v2/sets"
	"github.com/emirpasic/gods/v2/sets/hashset"
	"github.com/emirpasic/gods/v2/sets/linkedhashset"
	"github.com/emirpasic/gods/v2/sets/treeset"
)

// algSet adapts one set kind onto the three algebra operations.
type algSet[T comparable] struct {
	kind  string
	S     sets.Set[T]
	raw   any
	cmp   func(a, b T) int // TreeSet comparator (nil otherwise)
	inter func(o *algSet[T]) *algSet[T]
	union func(o *algSet[T]) *algSet[T]
	diff  func(o *algSet[T]) *algSet[T]
}

func wrapHashSet[T comparable](s *hashset.Set[T]) *algSet[T] {
	a := &algSet[T]{kind: "HashSet", S: s, raw: s}
	a.inter = func(o *algSet[T]) *algSet[T] { return wrapHashSet(s.Intersection(o.raw.(*hashset.Set[T]))) }
	a.union = func(o *algSet[T]) *algSet[T] { return wrapHashSet(s.Union(o.raw.(*hashset.Set[T]))) }
	a.diff = func(o *algSet[T]) *algSet[T] { return wrapHashSet(s.Difference(o.raw.(*hashset.Set[T]))) }
	return a
}

func wrapLinkedSet[T comparable](s *linkedhashset.Set[T]) *algSet[T] {
	a := &algSet[T]{kind: "LinkedHashSet", S: s, raw: s}
	a.inter = func(o *algSet[T]) *algSet[T] { return wrapLinkedSet(s.Intersection(o.raw.(*linkedhashset.Set[T]))) }
	a.union = func(o *algSet[T]) *algSet[T] { return wrapLinkedSet(s.Union(o.raw.(*linkedhashset.Set[T]))) }
	a.diff = func(o *algSet[T]) *algSet[T] { return wrapLinkedSet(s.Difference(o.raw.(*linkedhashset.Set[T]))) }
	return a
}

func wrapTreeSet[T comparable](s *treeset.Set[T], cmp func(a, b T) int) *algSet[T] {
	a := &algSet[T]{kind: "TreeSet", S: s, raw: s, cmp: cmp}
	a.inter = func(o *algSet[T]) *algSet[T] { return wrapTreeSet(s.Intersection(o.raw.(*treeset.Set[T])), cmp) }
	a.union = func(o *algSet[T]) *algSet[T] { return wrapTreeSet(s.Union(o.raw.(*treeset.Set[T])), cmp) }
	a.diff = func(o *algSet[T]) *algSet[T] { return wrapTreeSet(s.Difference(o.raw.(*treeset.Set[T])), cmp) }
	return a
}

func (a *algSet[T]) same(x, y T) bool {
	if a.cmp != nil {
		return a.cmp(x, y) == 0
	}
	return x == y
}

func (a *algSet[T]) has(vs []T, x T) bool {
	for _, v := range vs {
		if a.same(v, x) {
			return true
		}
	}
	return false
}

// snapshot of all observers; for HashSet the order of Values() is not part
// of the state.
type setSnap[T comparable] struct {
	vals  []T
	size  int
	empty bool
	str   string
}

func (a *algSet[T]) snap() setSnap[T] {
	// deep copy: if the library hands out a shared (memoised) slice, a later
	// in-place change must not silently change this snapshot too
	return setSnap[T]{vals: append([]T(nil), a.S.Values()...), size: a.S.Size(), empty: a.S.Empty()}
}

func (a *algSet[T]) unchanged(before, after setSnap[T]) bool {
	if before.size != after.size || before.empty != after.empty {
		return false
	}
	if a.kind == "HashSet" {
		return sameMultiset(before.vals, after.vals)
	}
	return eqSlices(before.vals, after.vals)
}

var pairKinds = []string{"disjoint", "overlapping", "a-subset-of-b", "b-subset-of-a", "equal", "same-object", "a-empty", "b-empty", "both-empty", "random", "touching-ranges"}

// buildAlgSet makes a set of the given kind holding `members` (reached by a
// history with extra adds and removes so trees have arbitrary shapes).
func buildAlgSet[T comparable](c *core.Ctx, kind string, cm NamedCmp[T], members []T, d *Dom[T]) *algSet[T] {
	r := c.R
	var a *algSet[T]
	switch kind {
	case "HashSet":
		a = wrapHashSet(hashset.New[T]())
	case "LinkedHashSet":
		a = wrapLinkedSet(linkedhashset.New[T]())
	default:
		a = wrapTreeSet(treeset.NewWith[T](cm.F), cm.F)
	}
	for _, i := range r.Perm(len(members)) {
		a.S.Add(members[i])
		if r.Chance(1, 4) { // transient extra member
			x := d.AnyVal(r)
			if !a.has(members, x) {
				a.S.Add(x)
				a.S.Remove(x)
			}
		}
	}
	// A set of this kind can be reached by other routes than New + Add: the
	// variadic constructor, Select/Map of another set, an earlier algebra
	// result, a load from JSON. All of them are legitimate operands.
	route := r.Intn(8)
	c.Count("operand-route:"+[]string{"add", "add", "constructor", "select", "map", "algebra-result", "json", "cleared-after-growth"}[route], 1)
	switch route {
	case 7:
		// an earlier generation: the set once held thousands of other members,
		// was cleared, and then got its present members (storage dropped or kept
		// by Clear depending on how large it had grown)
		if _, isInt := any(d.Alpha[0]).(int); isInt && len(members) < 64 {
			keep := a.S.Values()
			for i, n := 0, []int{1025, 1100, 4097, 5000}[r.Intn(4)]; i < n; i++ {
				a.S.Add(d.Wide(r))
			}
			a.S.Clear()
			if len(keep) == 0 {
				// left exactly as Clear left it (not even an Add without arguments)
			} else if r.Bool() {
				a.S.Add(keep...)
			} else {
				for _, v := range keep {
					a.S.Add(v)
				}
			}
		}
		return a
	case 2:
		vs := a.S.Values()
		switch kind {
		case "HashSet":
			return wrapHashSet(hashset.New[T](vs...))
		case "LinkedHashSet":
			return wrapLinkedSet(linkedhashset.New[T](vs...))
		default:
			return wrapTreeSet(treeset.NewWith[T](cm.F, vs...), cm.F)
		}
	case 3:
		switch x := a.raw.(type) {
		case *linkedhashset.Set[T]:
			return wrapLinkedSet(x.Select(func(int, T) bool { return true }))
		case *treeset.Set[T]:
			return wrapTreeSet(x.Select(func(int, T) bool { return true }), cm.F)
		}
	case 4:
		switch x := a.raw.(type) {
		case *linkedhashset.Set[T]:
			return wrapLinkedSet(x.Map(func(_ int, v T) T { return v }))
		case *treeset.Set[T]:
			return wrapTreeSet(x.Map(func(_ int, v T) T { return v }), cm.F)
		}
	case 5:
		return a.union(a)
	case 6:
		if js, ok := a.raw.(jsonAPI); ok {
			if data, err := js.ToJSON(); err == nil {
				if _, isStruct := any(d.Alpha[0]).(SK); !isStruct {
					js.FromJSON(data)
				}
			}
		}
	}
	return a
}

func runC13Case[T comparable](c *core.Ctx, d *Dom[T], kind string) {
	r := c.R
	cm := d.Cmps[r.Intn(len(d.Cmps))]
	pk := pairKinds[r.Intn(len(pairKinds))]
	// choose member lists from the alphabet (distinct under the comparator in use)
	probe := &algSet[T]{}
	if kind == "TreeSet" {
		probe.cmp = cm.F
	}
	var universe []T
	for _, i := range r.Perm(len(d.Alpha)) {
		if !probe.has(universe, d.Alpha[i]) {
			universe = append(universe, d.Alpha[i])
		}
	}
	take := func(n int) []T {
		if n > len(universe) {
			n = len(universe)
		}
		out := universe[:n]
		universe = universe[n:]
		return out
	}
	big := 1
	if len(d.Alpha) >= 200 {
		big = 12
		c.Count("pair:operands-with-dozens-to-hundreds-of-members", 1)
	}
	if len(d.Alpha) >= 1500 {
		// one operand with many hundreds of members, the other small (or the
		// other way round): size-ratio heuristics and fast paths
		nBig, nSmall := r.Range(300, 1200), r.Range(0, 30)
		overlap := r.Range(0, nSmall)
		small := take(nSmall)
		bigM := append(append([]T{}, small[:overlap]...), take(nBig)...)
		pk = "huge-vs-small"
		c.Count("pair:huge-vs-small", 1)
		if r.Bool() {
			universe = nil
			runAlgebraOn(c, d, kind, cm, pk, bigM, small)
		} else {
			universe = nil
			runAlgebraOn(c, d, kind, cm, pk, small, bigM)
		}
		return
	}
	var ma, mb []T
	switch pk {
	case "disjoint":
		ma, mb = take(r.Range(1, 6)*big), take(r.Range(1, 6)*big)
	case "overlapping":
		common := take(r.Range(1, 4) * big)
		ma = append(append([]T{}, common...), take(r.Range(1, 5)*big)...)
		mb = append(append([]T{}, common...), take(r.Range(1, 5)*big)...)
	case "a-subset-of-b":
		ma = take(r.Range(1, 4) * big)
		mb = append(append([]T{}, ma...), take(r.Range(1, 6)*big)...)
	case "b-subset-of-a":
		mb = take(r.Range(1, 4) * big)
		ma = append(append([]T{}, mb...), take(r.Range(1, 6)*big)...)
	case "equal", "same-object":
		ma = take(r.Range(1, 8) * big)
		mb = append([]T{}, ma...)
	case "a-empty":
		mb = take(r.Range(1, 6) * big)
	case "b-empty":
		ma = take(r.Range(1, 6) * big)
	case "both-empty":
	case "touching-ranges":
		// in the order of the comparator in use: one operand ends where the
		// other begins, sharing exactly that one element (or, one time in three,
		// just failing to)
		sorted := append([]T{}, universe...)
		sort.SliceStable(sorted, func(i, j int) bool { return cm.F(sorted[i], sorted[j]) < 0 })
		if len(sorted) > 80 {
			sorted = sorted[:r.Range(34, 80)]
		}
		p := len(sorted) / 2
		lo, hi := sorted[:p+1], sorted[p:]
		if r.Intn(3) == 0 {
			hi = sorted[p+1:]
		}
		if r.Bool() {
			ma, mb = append([]T{}, lo...), append([]T{}, hi...)
		} else {
			ma, mb = append([]T{}, hi...), append([]T{}, lo...)
		}
	default:
		for _, v := range universe {
			if r.Bool() {
				ma = append(ma, v)
			}
			if r.Bool() {
				mb = append(mb, v)
			}
		}
	}
	if kind == "TreeSet" && r.Bool() {
		// the argument holds other representatives of the common classes than the
		// receiver ("a" there, "A" here under a caseless order): only the
		// comparator may decide what is common
		mb = append([]T{}, mb...)
		for i, x := range mb {
			var alts []T
			for _, v := range d.Alpha {
				if cm.F(v, x) == 0 {
					alts = append(alts, v)
				}
			}
			if len(alts) > 1 {
				mb[i] = alts[r.Intn(len(alts))]
				c.Count("pair:other-representative-in-argument", 1)
			}
		}
	}
	runAlgebraOn(c, d, kind, cm, pk, ma, mb)
}

// runHugeAlgebra: an operand with a few hundred thousand members inserted in
// strictly falling or rising order (the deepest trees a red-black tree gets)
// against a small one, both ways round. Membership is known by construction.
func runHugeAlgebra(c *core.Ctx, j int) {
	n := 300000
	if c.Tier == "thorough" {
		n = 1500000
	}
	natural := func(a, b int) int { return cmp.Compare(a, b) }
	var mk func() *algSet[int]
	kind := []string{"TreeSet", "TreeSet", "LinkedHashSet", "HashSet"}[j%4]
	switch kind {
	case "TreeSet":
		mk = func() *algSet[int] { return wrapTreeSet(treeset.NewWith[int](natural), natural) }
	case "LinkedHashSet":
		mk = func() *algSet[int] { return wrapLinkedSet(linkedhashset.New[int]()) }
	default:
		mk = func() *algSet[int] { return wrapHashSet(hashset.New[int]()) }
	}
	big, small := mk(), mk()
	c.Begin(kind, "Add", n, "members, one by one, falling or rising")
	for i := 0; i < n; i++ {
		k := i
		if j%2 == 0 {
			k = n - 1 - i // falling
		}
		big.S.Add(k * 2) // the even numbers below 2n
	}
	smallM := []int{-5, 0, 1, 2, 3, n, n + 1, 2*n - 2, 2*n - 1, 2 * n, 2*n + 7}
	small.S.Add(smallM...)
	inBig := func(x int) bool { return x >= 0 && x < 2*n && x%2 == 0 }
	common := 0
	for _, x := range smallM {
		if inBig(x) {
			common++
		}
	}
	check := func(op string, res *algSet[int], wantSize int, member func(int) bool) {
		if sz := res.S.Size(); sz != wantSize {
			c.Fail("members", "huge-count", "%s %s with a %d-member operand: result has Size %d, want %d", kind, op, n, sz, wantSize)
		}
		vs := res.S.Values()
		if len(vs) != wantSize {
			c.Fail("members", "huge-count", "%s %s with a %d-member operand: result enumerates %d members, want %d", kind, op, n, len(vs), wantSize)
		}
		for i, x := range vs {
			if !member(x) {
				c.Fail("members", "huge-extra", "%s %s with a %d-member operand: result contains %d", kind, op, n, x)
			}
			if kind == "TreeSet" && i > 0 && vs[i-1] >= x {
				c.Fail("order", "result-not-sorted", "%s %s with a %d-member operand: result not ascending at position %d", kind, op, n, i)
			}
		}
		for _, x := range append([]int{4, 2*n - 4, n - n%2}, smallM...) {
			if res.S.Contains(x) != member(x) {
				c.Fail("members", "huge-contains", "%s %s with a %d-member operand: result.Contains(%d) = %v", kind, op, n, x, !member(x))
			}
		}
		if big.S.Size() != n || small.S.Size() != len(smallM) {
			c.Fail("side-effect", "huge-operand-changed", "%s %s changed an operand's size (%d, %d)", kind, op, big.S.Size(), small.S.Size())
		}
		c.Count("obs:huge-algebra", 1)
	}
	inSmall := func(x int) bool { return slices.Contains(smallM, x) }
	c.Begin(kind, "Union", "huge", "small")
	check("Union(huge, small)", big.union(small), n+len(smallM)-common, func(x int) bool { return inBig(x) || inSmall(x) })
	c.Begin(kind, "Union", "small", "huge")
	check("Union(small, huge)", small.union(big), n+len(smallM)-common, func(x int) bool { return inBig(x) || inSmall(x) })
	c.Begin(kind, "Intersection", "huge", "small")
	check("Intersection(huge, small)", big.inter(small), common, func(x int) bool { return inBig(x) && inSmall(x) })
	c.Begin(kind, "Intersection", "small", "huge")
	check("Intersection(small, huge)", small.inter(big), common, func(x int) bool { return inBig(x) && inSmall(x) })
	c.Begin(kind, "Difference", "huge", "small")
	check("Difference(huge, small)", big.diff(small), n-common, func(x int) bool { return inBig(x) && !inSmall(x) })
	c.Begin(kind, "Difference", "small", "huge")
	check("Difference(small, huge)", small.diff(big), len(smallM)-common, func(x int) bool { return !inBig(x) && inSmall(x) })
	c.Begin(kind, "Union", "huge", "huge")
	check("Union(huge, huge)", big.union(big), n, inBig)
	// two large operands (thresholds on the SMALLER operand, work split across helpers)
	m2 := 20000
	other := mk()
	c.Begin(kind, "Add", m2, "members of a second large operand")
	for i := 0; i < m2; i++ {
		other.S.Add(i*3 - 9000) // multiples of 3 from -9000: those that are even and in range are common
	}
	inOther := func(x int) bool { return (x+9000)%3 == 0 && x >= -9000 && x < m2*3-9000 }
	commonBig, onlyOther := 0, 0
	for i := 0; i < m2; i++ {
		if inBig(i*3 - 9000) {
			commonBig++
		} else {
			onlyOther++
		}
	}
	checkL := func(op string, res *algSet[int], wantSize int, member func(int) bool) {
		if sz := res.S.Size(); sz != wantSize {
			c.Fail("members", "huge-count", "%s %s of a %d-member and a %d-member set: result has Size %d, want %d", kind, op, n, m2, sz, wantSize)
		}
		vs := res.S.Values()
		if len(vs) != wantSize {
			c.Fail("members", "huge-count", "%s %s of a %d-member and a %d-member set: result enumerates %d members, want %d", kind, op, n, m2, len(vs), wantSize)
		}
		for _, x := range vs {
			if !member(x) {
				c.Fail("members", "huge-extra", "%s %s of two large sets: result contains %d", kind, op, x)
			}
		}
		if big.S.Size() != n || other.S.Size() != m2 {
			c.Fail("side-effect", "huge-operand-changed", "%s %s changed an operand's size (%d, %d)", kind, op, big.S.Size(), other.S.Size())
		}
		c.Count("obs:huge-algebra", 1)
	}
	c.Begin(kind, "Intersection", "huge", "large")
	checkL("Intersection(huge, large)", big.inter(other), commonBig, func(x int) bool { return inBig(x) && inOther(x) })
	c.Begin(kind, "Intersection", "large", "huge")
	checkL("Intersection(large, huge)", other.inter(big), commonBig, func(x int) bool { return inBig(x) && inOther(x) })
	c.Begin(kind, "Union", "large", "huge")
	checkL("Union(large, huge)", other.union(big), n+onlyOther, func(x int) bool { return inBig(x) || inOther(x) })
	c.Begin(kind, "Difference", "large", "huge")
	checkL("Difference(large, huge)", other.diff(big), onlyOther, func(x int) bool { return !inBig(x) && inOther(x) })
	c.Begin(kind, "Difference", "huge", "large")
	checkL("Difference(huge, large)", big.diff(other), n-commonBig, func(x int) bool { return inBig(x) && !inOther(x) })
	c.Count("obs:huge-algebra-cases", 1)
	c.Nontrivial()
}

const hugeAlgebraCases = 4

// runAlgebraOn builds the two operands from their member lists and checks the
// three operations on them.
func runAlgebraOn[T comparable](c *core.Ctx, d *Dom[T], kind string, cm NamedCmp[T], pk string, ma, mb []T) {
	r := c.R
	a := buildAlgSet(c, kind, cm, ma, d)
	b := a
	if pk != "same-object" {
		b = buildAlgSet(c, kind, cm, mb, d)
	}
	c.Count("pair:"+pk, 1)
	if len(ma) > len(mb) {
		c.Count("pair:a-larger", 1)
	} else if len(mb) > len(ma) {
		c.Count("pair:b-larger", 1)
	}
	c.Note("%s(%s) pair %s: a=%v b=%v", kind, cm.Name, pk, ma, mb)

	// the three operations in a random order: the probes that follow each one
	// (mutating and restoring the operands) would otherwise always stand between
	// the way an operand was built and the second and third operation
	ops := []string{"Intersection", "Union", "Difference"}
	for i, j := range r.Perm(3) {
		ops[i], ops[j] = ops[j], ops[i]
	}
	for _, op := range ops {
		var want []T
		switch op {
		case "Intersection":
			for _, x := range ma {
				if a.has(mb, x) {
					want = append(want, x)
				}
			}
		case "Union":
			want = append(want, ma...)
			for _, x := range mb {
				if !a.has(ma, x) {
					want = append(want, x)
				}
			}
		default:
			for _, x := range ma {
				if !a.has(mb, x) {
					want = append(want, x)
				}
			}
		}
		// In half of the cases the operands are not looked at before the call
		// (a look would compact or refresh anything the operand keeps lazily);
		// they are then compared with the member lists they were built from.
		observed := r.Bool()
		var sa, sb setSnap[T]
		if observed {
			sa, sb = a.snap(), b.snap()
		}
		c.Begin(kind, op, pk, ma, mb)
		var res *algSet[T]
		switch op {
		case "Intersection":
			res = a.inter(b)
		case "Union":
			res = a.union(b)
		default:
			res = a.diff(b)
		}
		// 1. exact members
		got := res.S.Values()
		if len(got) != len(want) || res.S.Size() != len(want) {
			c.Fail("members", "count", "%s %s of a=%v b=%v: result %s (Size %d), want exactly %v", kind, op, ma, mb, short(got), res.S.Size(), want)
		}
		for _, x := range want {
			if !a.has(got, x) || !res.S.Contains(x) {
				c.Fail("members", "missing", "%s %s of a=%v b=%v: result %s lacks %v", kind, op, ma, mb, short(got), x)
			}
		}
		for _, x := range got {
			if !a.has(want, x) {
				c.Fail("members", "extra", "%s %s of a=%v b=%v: result %s contains %v", kind, op, ma, mb, short(got), x)
			}
		}
		// 2. a new object
		if res.raw == a.raw || res.raw == b.raw {
			c.Fail("aliasing", "result-is-operand", "%s %s (%s pair) returned one of its operands instead of a new set", kind, op, pk)
		}
		// 3. operands unchanged by the call
		if observed {
			if !a.unchanged(sa, a.snap()) {
				c.Fail("side-effect", "receiver-changed", "%s %s changed its receiver: before %s, after %s", kind, op, short(sa.vals), short(a.S.Values()))
			}
			if !b.unchanged(sb, b.snap()) {
				c.Fail("side-effect", "argument-changed", "%s %s changed its argument: before %s, after %s", kind, op, short(sb.vals), short(b.S.Values()))
			}
		} else {
			for _, o := range []struct {
				s    *algSet[T]
				want []T
				who  string
			}{{a, ma, "receiver"}, {b, mb, "argument"}} {
				vs := o.s.S.Values()
				ok := len(vs) == len(o.want) && o.s.S.Size() == len(o.want)
				for _, x := range o.want {
					ok = ok && a.has(vs, x)
				}
				if !ok {
					c.Fail("side-effect", o.who+"-changed", "%s %s: its %s, built with members %v and not looked at before the call, enumerates %s afterwards", kind, op, o.who, o.want, short(vs))
				}
			}
			c.Count("obs:operands-not-observed-before-the-call", 1)
		}
		// 4. TreeSet result is ordered by the operands' comparator and keeps it
		if kind == "TreeSet" {
			for i := 1; i < len(got); i++ {
				if cm.F(got[i-1], got[i]) >= 0 {
					c.Fail("order", "result-not-sorted", "TreeSet(%s) %s result %s is not in the operands' comparator order", cm.Name, op, short(got))
				}
			}
		}
		// 5. independence: mutate each of the three in turn
		fresh := d.Probe[r.Intn(len(d.Probe))]
		mutate := func(s *algSet[T]) {
			switch r.Intn(8) {
			case 0, 1:
				s.S.Clear() // wholesale changes take other paths than Add/Remove
				s.S.Add(fresh)
				return
			case 2:
				// a load replaces the content by yet another path
				if js, ok := s.raw.(jsonAPI); ok {
					if data, err := json.Marshal([]T{fresh, d.Val(r)}); err == nil && js.FromJSON(data) == nil {
						c.Count("obs:independence-probed-with-fromjson", 1)
						return
					}
				}
			}
			s.S.Add(fresh)
			if vs := s.S.Values(); len(vs) > 1 {
				s.S.Remove(vs[r.Intn(len(vs))])
			}
			s.S.Add(d.Val(r))
		}
		sr := res.snap()
		sa, sb = a.snap(), b.snap()
		c.Begin(kind, op+"/mutate-result")
		mutate(res)
		if !a.unchanged(sa, a.snap()) || !b.unchanged(sb, b.snap()) {
			c.Fail("shared-state", "result-to-operand", "%s %s: changing the result changed an operand (a: %s -> %s, b: %s -> %s)", kind, op, short(sa.vals), short(a.S.Values()), short(sb.vals), short(b.S.Values()))
		}
		if kind == "TreeSet" {
			// after more Adds the result still enumerates in the comparator's order
			for k := 0; k < 4; k++ {
				res.S.Add(d.AnyVal(r))
			}
			vs := res.S.Values()
			for i := 1; i < len(vs); i++ {
				if cm.F(vs[i-1], vs[i]) >= 0 {
					c.Fail("order", "result-lost-comparator", "TreeSet(%s) %s result enumerates %s after further Adds: not the operands' comparator order", cm.Name, op, short(vs))
				}
			}
		}
		// fresh result for the operand-mutation direction
		switch op {
		case "Intersection":
			res = a.inter(b)
		case "Union":
			res = a.union(b)
		default:
			res = a.diff(b)
		}
		sr = res.snap()
		sb = b.snap()
		ca := cloneAlg(c, a, kind, cm, d)
		c.Begin(kind, op+"/mutate-receiver")
		mutate(ca.orig)
		if !res.unchanged(sr, res.snap()) {
			c.Fail("shared-state", "operand-to-result", "%s %s: changing the receiver afterwards changed the result (%s -> %s)", kind, op, short(sr.vals), short(res.S.Values()))
		}
		if pk != "same-object" && !b.unchanged(sb, b.snap()) {
			c.Fail("shared-state", "operand-to-operand", "%s %s: changing the receiver afterwards changed the argument", kind, op)
		}
		ca.restore()
		if pk != "same-object" {
			cb := cloneAlg(c, b, kind, cm, d)
			sa = a.snap()
			c.Begin(kind, op+"/mutate-argument")
			mutate(cb.orig)
			if !res.unchanged(sr, res.snap()) {
				c.Fail("shared-state", "operand-to-result", "%s %s: changing the argument afterwards changed the result (%s -> %s)", kind, op, short(sr.vals), short(res.S.Values()))
			}
			if !a.unchanged(sa, a.snap()) {
				c.Fail("shared-state", "operand-to-operand", "%s %s: changing the argument afterwards changed the receiver", kind, op)
			}
			cb.restore()
		}
		c.Count("obs:algebra-"+op, 1)
		c.State(core.Mix(core.HashString(kind), core.HashString(op), core.HashString(pk), hashVals(ma), hashVals(mb)))
	}
	c.Nontrivial()
}

// algRestore puts an operand back to its content after a mutation probe (the
// same pair is reused for the next operation).
type algRestore[T comparable] struct {
	orig    *algSet[T]
	members []T
}

func cloneAlg[T comparable](c *core.Ctx, a *algSet[T], kind string, cm NamedCmp[T], d *Dom[T]) *algRestore[T] {
	return &algRestore[T]{orig: a, members: a.S.Values()}
}

func (ar *algRestore[T]) restore() {
	ar.orig.S.Clear()
	ar.orig.S.Add(ar.members...)
}

func runC13(c *core.Ctx) {
	if c.Index < hugeAlgebraCases {
		runHugeAlgebra(c, c.Index)
		return
	}
	kind := []string{"HashSet", "LinkedHashSet", "TreeSet"}[c.Index%3]
	if (c.Index/3)%499 == 77 {
		runC13Case(c, IntDom(c.R.Range(1500, 2500)), kind)
		return
	}
	if (c.Index/3)%53 == 9 {
		runC13Case(c, IntDom(c.R.Range(200, 600)), kind) // operands with hundreds of members
		return
	}
	if (c.Index/3)%4 == 3 {
		runC13Case(c, StrDom(c.R.Range(6, 20)), kind)
		return
	}
	runC13Case(c, IntDom(c.R.Range(6, 24)), kind)
}

func init() {
	core.Register(&core.Prop{
		ID:    "C13",
		Title: "Set algebra is exact and free of side effects",
		Cases: func(tier string) int { return tierN(tier, 45000, 4500000) },
		Run:   runC13,
		Rule: fmt.Sprintf("one pair of sets per case (kinds HashSet, LinkedHashSet, TreeSet with natural/reversed/coarsened comparator given as the same function value; pair relations %v; either operand larger; built by histories with transient members), "+
			"on which Intersection, Union and Difference are each checked for exact members, a fresh result object, unchanged operands, comparator order of a TreeSet result (also after further Adds) and independence under mutation of each of the three sets in turn. "+
			"Every case is non-trivial (three operations, each with all checks); distinct = distinct hash of the pair and call list.", pairKinds),
		Floors: func(tier string, m map[string]int64) []string {
			f := &floorCheck{m: m}
			for _, pk := range pairKinds {
				f.atLeast("pair:"+pk, 300)
			}
			f.atLeast("pair:a-larger", 1000)
			f.atLeast("pair:b-larger", 1000)
			f.atLeast("pair:other-representative-in-argument", 1000)
			f.atLeast("obs:independence-probed-with-fromjson", 1000)
			f.atLeast("obs:huge-algebra-cases", hugeAlgebraCases)
			for _, op := range []string{"Intersection", "Union", "Difference"} {
				f.atLeast("obs:algebra-"+op, 5000)
			}
			return f.missing
		},
		Files: setFiles,
		Assumptions: []string{
			"TreeSet operands always share one comparator function value (the statement covers only that case)",
			"the enumeration order of a HashSet/LinkedHashSet algebra result is not constrained",
			"a clean run says the property held on the executed pairs only",
		},
	})
}
