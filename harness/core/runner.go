package core

import (
	"bufio"
	"encoding/binary"
	"encoding/json"
	"fmt"
	"os"
	"os/exec"
	"path/filepath"
	"runtime"
	"sort"
	"strconv"
	"strings"
	"sync"
	"sync/atomic"
	"syscall"
	"time"
)

// Prop is one property check: a deterministic family of cases, each of which
// drives the real library under monitors.
type Prop struct {
	ID    string
	Title string
	// Cases returns how many cases a tier runs (tiers are case counts, never
	// time budgets).
	Cases func(tier string) int
	// Run executes case c.Index; all randomness comes from c.R.
	Run func(c *Ctx)
	// Rule describes how cases are generated and what makes one non-trivial.
	Rule string
	// Floors returns the observation floors that were NOT met (the run is then
	// inconclusive). counters includes "call:<obj>.<op>" entries.
	Floors func(tier string, counters map[string]int64) []string
	// Files are the repo-relative files whose block coverage is reported.
	Files       []string
	Assumptions []string
	// Workers overrides the number of child processes (0 = NumCPU, max 16).
	Workers int
	// ChildEnv adds environment variables for children.
	ChildEnv func(workdir string) []string
	// Post lets a property inspect the finished run (child output files, race
	// logs) and add violations, inconclusive reasons and evidence keys.
	Post func(run *RunInfo)
	// OutputIsViolation: bytes on a child's stdout/stderr are violations of
	// this property (C17). Otherwise they are only reported.
	OutputIsViolation bool
	// Timeout per tier for the whole run (generous wall-clock watchdog).
	Timeout func(tier string) time.Duration
	// CaseBudget is the generous wall-clock budget of a single case (default
	// 45 s quick / 300 s thorough; normal cases take milliseconds). A child
	// whose current case exceeds it stops itself; the hang counts as a
	// violation only if the same case, replayed alone with twice the budget,
	// stops making progress again.
	CaseBudget func(tier string) time.Duration
	// NoPar switches the concurrent-private-instances phase off (checks whose
	// monitors watch process-wide state); ParSkip overrides how many leading
	// case indices (long deterministic cases) that phase leaves out.
	NoPar   bool
	ParSkip func(tier string) int
}

// HangExit is the exit status of a child that stopped itself because one
// case exceeded its budget.
const HangExit = 97

func (p *Prop) caseBudget(tier string) time.Duration {
	if b := os.Getenv("VERIF_CASE_BUDGET_S"); b != "" {
		if v, err := strconv.Atoi(b); err == nil && v > 0 {
			return time.Duration(v) * time.Second
		}
	}
	if p.CaseBudget != nil {
		return p.CaseBudget(tier)
	}
	if tier == "thorough" {
		return 600 * time.Second
	}
	return 120 * time.Second // (the slowest quick case takes about 10 s on an idle machine; a loaded one must not trip this)
}

// RunInfo is what Post sees.
type RunInfo struct {
	Prop         *Prop
	Tier         string
	Seed         uint64
	WorkDir      string
	VerifDir     string
	Counters     map[string]int64
	Extra        map[string]any
	Violations   []*Violation
	Inconclusive []string
}

var registry = map[string]*Prop{}

func Register(p *Prop) { registry[p.ID] = p }

func Lookup(id string) *Prop { return registry[id] }

func IDs() []string {
	ids := make([]string, 0, len(registry))
	for id := range registry {
		ids = append(ids, id)
	}
	sort.Strings(ids)
	return ids
}

type sample struct {
	Index int      `json:"case_index"`
	Ops   int      `json:"calls"`
	Trace []string `json:"first_calls"`
}

type childResult struct {
	K          int              `json:"k"`
	Cases      int              `json:"cases"`
	Calls      map[string]int64 `json:"calls"`
	Counters   map[string]int64 `json:"counters"`
	Violations []*Violation     `json:"violations"`
	Samples    []sample         `json:"samples"`
	StatesCap  bool             `json:"states_cap"`
	Done       bool             `json:"done"`
	SlowestMs  int64            `json:"slowest_case_ms"`
	SlowestIdx int              `json:"slowest_case_index"`
}

func caseSeed(seed uint64, prop, tier string, index int) uint64 {
	return Mix(seed, HashString(prop), HashString(tier), uint64(index))
}

func newCtx(p *Prop, seed uint64, tier string, index int, st *Stats) *Ctx {
	return &Ctx{Prop: p.ID, Seed: seed, Tier: tier, Index: index, R: NewR(caseSeed(seed, p.ID, tier, index)), St: st}
}

func envSeed() uint64 {
	if s := os.Getenv("VERIF_SEED"); s != "" {
		if v, err := strconv.ParseInt(s, 10, 64); err == nil {
			return uint64(v)
		}
		if v, err := strconv.ParseUint(s, 10, 64); err == nil {
			return v
		}
	}
	return 1
}

// ChildMain runs cases k, k+w, k+2w, ... < n and writes its result file.
func ChildMain(p *Prop, tier string, seed uint64, k, w, n int, dir string, only int, verbose string, budget time.Duration) {
	st := NewStats()
	var caseStart atomic.Int64
	if budget > 0 {
		go func() {
			for {
				time.Sleep(200 * time.Millisecond)
				if t := caseStart.Load(); t != 0 && time.Since(time.Unix(0, t)) > budget {
					os.WriteFile(filepath.Join(dir, fmt.Sprintf("hang_%d", k)), []byte("case exceeded its wall-clock budget\n"), 0o644)
					os.Exit(HangExit)
				}
			}
		}()
	}
	res := &childResult{K: k, Calls: map[string]int64{}}
	sigSeen := map[string]*Violation{}
	progress, _ := os.OpenFile(filepath.Join(dir, fmt.Sprintf("progress_%d", k)), os.O_CREATE|os.O_WRONLY|os.O_TRUNC, 0o644)
	var vw *os.File
	if verbose != "" {
		vw, _ = os.OpenFile(verbose, os.O_CREATE|os.O_WRONLY|os.O_TRUNC, 0o644)
	}
	runOne := func(i int) {
		if progress != nil {
			progress.WriteAt([]byte(fmt.Sprintf("%-12d\n", i)), 0)
		}
		c := newCtx(p, seed, tier, i, st)
		if vw != nil {
			c.Verbose = vw
		}
		t0 := time.Now()
		caseStart.Store(t0.UnixNano())
		c.RunCase(p.Run)
		caseStart.Store(0)
		if ms := time.Since(t0).Milliseconds(); ms >= res.SlowestMs {
			res.SlowestMs, res.SlowestIdx = ms, i
		}
		st.Cases++
		if c.nontriv {
			st.CaseHash[c.caseHash] = struct{}{}
		}
		if len(res.Samples) < 3 && c.nops > 0 && (c.nontriv || i < 3) {
			tr := c.traceStrings()
			if c.nops > traceRing {
				tr = append([]string{"… (earlier calls omitted)"}, tr...)
			}
			if len(tr) > 60 {
				tr = tr[:60]
			}
			res.Samples = append(res.Samples, sample{Index: i, Ops: c.nops, Trace: tr})
		}
		if c.Viol != nil {
			if v, ok := sigSeen[c.Viol.Sig]; ok {
				v.Count++
			} else if len(sigSeen) < 200 {
				sigSeen[c.Viol.Sig] = c.Viol
				res.Violations = append(res.Violations, c.Viol)
			}
		}
	}
	if only >= 0 {
		runOne(only)
	} else {
		// cases are dealt to the children by a hash of their index, not by
		// stride: special case families sit at regular index intervals and would
		// otherwise all land on the same child
		for i := 0; i < n; i++ {
			if int(Mix(uint64(i), 0x5eed)%uint64(w)) == k && sampled(i) {
				runOne(i)
			}
		}
	}
	res.Cases = st.Cases
	for ck, v := range st.Calls {
		res.Calls[ck.obj+"."+ck.op] = v
	}
	res.Counters = st.Counters
	res.StatesCap = st.StatesCap
	res.Done = true
	// states and case hashes as binary side files
	writeHashes(filepath.Join(dir, fmt.Sprintf("states_%d.bin", k)), st.States)
	writeHashes(filepath.Join(dir, fmt.Sprintf("cases_%d.bin", k)), st.CaseHash)
	b, _ := json.Marshal(res)
	os.WriteFile(filepath.Join(dir, fmt.Sprintf("result_%d.json", k)), b, 0o644)
	if vw != nil {
		vw.Close()
	}
}

func writeHashes(path string, m map[uint64]struct{}) {
	f, err := os.Create(path)
	if err != nil {
		return
	}
	w := bufio.NewWriterSize(f, 1<<20)
	var buf [8]byte
	for h := range m {
		binary.LittleEndian.PutUint64(buf[:], h)
		w.Write(buf[:])
	}
	w.Flush()
	f.Close()
}

func readHashes(path string, into map[uint64]struct{}, cap int) bool {
	b, err := os.ReadFile(path)
	if err != nil {
		return false
	}
	for i := 0; i+8 <= len(b); i += 8 {
		if len(into) >= cap {
			return true
		}
		into[binary.LittleEndian.Uint64(b[i:])] = struct{}{}
	}
	return false
}

// ParentMain plans the run, starts the children, merges what they observed,
// writes evidence and replay files and returns the exit code.
func ParentMain(p *Prop, tier, verifDir, outDir string) int {
	t0 := time.Now()
	seed := envSeed()
	work := filepath.Join(outDir, ".work", p.ID)
	os.RemoveAll(work)
	os.MkdirAll(filepath.Join(work, "cov"), 0o755)
	n := p.Cases(tier)
	w := runtime.NumCPU()
	if w > 16 {
		w = 16
	}
	if p.Workers > 0 {
		w = p.Workers
	}
	if w > n {
		w = n
	}
	if w < 1 {
		w = 1
	}
	exe, _ := os.Executable()
	timeout := 30 * time.Minute
	if tier == "thorough" {
		timeout = 4 * time.Hour
	}
	if p.Timeout != nil {
		timeout = p.Timeout(tier)
	}
	budget := p.caseBudget(tier)
	env := append(os.Environ(), "GOCOVERDIR="+filepath.Join(work, "cov"))
	if p.ChildEnv != nil {
		env = append(env, p.ChildEnv(work)...)
	}
	type childState struct {
		cmd      *exec.Cmd
		err      error
		timedOut bool
	}
	children := make([]*childState, w)
	var wg sync.WaitGroup
	for k := 0; k < w; k++ {
		cs := &childState{}
		children[k] = cs
		cs.cmd = childCmd(exe, p.ID, tier, seed, k, w, n, work, -1, "", env, budget)
		if err := cs.cmd.Start(); err != nil {
			cs.err = err
			continue
		}
		wg.Add(1)
		go func(cs *childState) {
			defer wg.Done()
			done := make(chan error, 1)
			go func() { done <- cs.cmd.Wait() }()
			select {
			case err := <-done:
				cs.err = err
			case <-time.After(timeout):
				cs.timedOut = true
				cs.cmd.Process.Signal(syscall.SIGQUIT)
				select {
				case <-done:
				case <-time.After(10 * time.Second):
					cs.cmd.Process.Kill()
					<-done
				}
			}
		}(cs)
	}
	wg.Wait()

	run := &RunInfo{Prop: p, Tier: tier, Seed: seed, WorkDir: work, VerifDir: verifDir, Counters: map[string]int64{}, Extra: map[string]any{}}
	calls := map[string]int64{}
	states := map[uint64]struct{}{}
	caseHashes := map[uint64]struct{}{}
	statesCapped := false
	var samples []sample
	var slowestMs int64
	slowestIdx := -1
	cases := 0
	bySig := map[string]*Violation{}
	addViol := func(v *Violation) {
		if old, ok := bySig[v.Sig]; ok {
			old.Count += v.Count
			return
		}
		bySig[v.Sig] = v
		run.Violations = append(run.Violations, v)
	}
	var outBytes int64
	type deadChild struct {
		k, idx int
		kind   string
		err    error
	}
	var dead []deadChild
	for k := 0; k < w; k++ {
		cs := children[k]
		var res childResult
		b, err := os.ReadFile(filepath.Join(work, fmt.Sprintf("result_%d.json", k)))
		ok := err == nil && json.Unmarshal(b, &res) == nil && res.Done
		if ok {
			cases += res.Cases
			for name, v := range res.Calls {
				calls[name] += v
			}
			for name, v := range res.Counters {
				run.Counters[name] += v
			}
			for _, v := range res.Violations {
				addViol(v)
			}
			if len(samples) < 3 {
				samples = append(samples, res.Samples...)
			}
			if res.StatesCap {
				statesCapped = true
			}
			if res.SlowestMs >= slowestMs {
				slowestMs, slowestIdx = res.SlowestMs, res.SlowestIdx
			}
			if readHashes(filepath.Join(work, fmt.Sprintf("states_%d.bin", k)), states, 5000000) {
				statesCapped = true
			}
			readHashes(filepath.Join(work, fmt.Sprintf("cases_%d.bin", k)), caseHashes, 20000000)
		}
		so := fileSize(filepath.Join(work, fmt.Sprintf("out_%d", k)))
		se := fileSize(filepath.Join(work, fmt.Sprintf("err_%d", k)))
		if ok {
			outBytes += so + se
			if so+se > 0 && p.OutputIsViolation {
				// Per-call attribution is done inside C17's cases; this is the
				// process-level backstop.
				addViol(&Violation{Property: p.ID, Sig: p.ID + "|process|exit|output|bytes-on-stdout-or-stderr",
					Message: fmt.Sprintf("child %d wrote %d bytes to stdout and %d to stderr: %q", k, so, se, headOf(filepath.Join(work, fmt.Sprintf("out_%d", k)))+headOf(filepath.Join(work, fmt.Sprintf("err_%d", k)))), Seed: seed, Tier: tier, Index: -1, Count: 1})
			}
			continue
		}
		// The child died (fatal error, kill) or hung: attribute through the
		// progress file and a verbose single-case replay (below, in parallel).
		idx := readProgress(filepath.Join(work, fmt.Sprintf("progress_%d", k)))
		kind := "fatal"
		if cs.timedOut || exitCode(cs.err) == HangExit {
			kind = "watchdog"
		}
		if idx < 0 {
			run.Inconclusive = append(run.Inconclusive, fmt.Sprintf("child %d ended abnormally before its first case: %v; stderr: %s", k, cs.err, tailOf(filepath.Join(work, fmt.Sprintf("err_%d", k)), 400)))
			continue
		}
		dead = append(dead, deadChild{k, idx, kind, cs.err})
	}
	// Replay the cases that killed a child, each alone with every call logged
	// before it is made and twice the budget; at most four (in parallel), the
	// others would almost always repeat the same finding.
	const maxReplays = 4
	var dmu sync.Mutex
	var dwg sync.WaitGroup
	for i, dc := range dead {
		if i >= maxReplays {
			run.Extra["abnormal_child_ends_not_replayed"] = len(dead) - maxReplays
			break
		}
		dwg.Add(1)
		go func(dc deadChild) {
			defer dwg.Done()
			k, idx, kind := dc.k, dc.idx, dc.kind
			vlog := filepath.Join(work, fmt.Sprintf("verbose_%d.log", k))
			rc := childCmd(exe, p.ID, tier, seed, 1000+k, 1, n, work, idx, vlog, env, 2*budget)
			rerr := runWithTimeout(rc, 2*budget+30*time.Second)
			var rres childResult
			rb, e2 := os.ReadFile(filepath.Join(work, fmt.Sprintf("result_%d.json", 1000+k)))
			reproduced := !(e2 == nil && json.Unmarshal(rb, &rres) == nil && rres.Done)
			lastOp := lastLine(vlog)
			dmu.Lock()
			defer dmu.Unlock()
			if reproduced {
				obj, op := splitOp(lastOp)
				errTail := tailOf(filepath.Join(work, fmt.Sprintf("err_%d", 1000+k)), 1500)
				addViol(&Violation{Property: p.ID, Sig: strings.Join([]string{p.ID, obj, op, kind, fatalClass(errTail)}, "|"),
					Message: fmt.Sprintf("process running case %d did not survive (%s, %v); reproduced alone, last call logged before it: %s; stderr tail: %s", idx, kind, rerr, lastOp, errTail),
					Seed:    seed, Tier: tier, Index: idx, Count: 1, Trace: tailLines(vlog, 100)})
			} else {
				for _, v := range rres.Violations {
					addViol(v)
				}
				run.Inconclusive = append(run.Inconclusive, fmt.Sprintf("child %d ended abnormally (%s, %v) at case %d but the case completed when replayed alone", k, kind, dc.err, idx))
			}
		}(dc)
	}
	dwg.Wait()
	run.Extra["child_output_bytes"] = outBytes
	covDir := filepath.Join(work, "cov")
	if coverExe := os.Getenv("VERIF_COVER_EXE"); coverExe != "" {
		covDir = runCoverPhase(p, coverExe, tier, seed, n, w, work, budget, run, addViol)
	}
	if raceExe := os.Getenv("VERIF_RACE_EXE"); raceExe != "" && !p.NoPar {
		runParPhase(p, raceExe, tier, seed, n, work, run, addViol)
	}
	for name, v := range calls {
		run.Counters["call:"+name] = v
	}
	if p.Post != nil {
		p.Post(run)
	}
	if cases < n && len(run.Violations) == 0 && len(run.Inconclusive) == 0 {
		run.Inconclusive = append(run.Inconclusive, fmt.Sprintf("only %d of %d planned cases ran", cases, n))
	}
	if p.Floors != nil && len(run.Violations) == 0 {
		for _, f := range p.Floors(tier, run.Counters) {
			run.Inconclusive = append(run.Inconclusive, "floor not met: "+f)
		}
	}

	// known findings filter
	kf := LoadKnownFindings(filepath.Join(verifDir, "KNOWN_FINDINGS.txt"))
	var fresh []*Violation
	sort.Slice(run.Violations, func(i, j int) bool { return run.Violations[i].Sig < run.Violations[j].Sig })
	for _, v := range run.Violations {
		if text, ok := kf.Open[v.Sig]; ok {
			fmt.Printf("KNOWN-FINDING: property=%s %s\n", p.ID, text)
			continue
		}
		fresh = append(fresh, v)
	}
	repDir := filepath.Join(outDir, "replays", p.ID)
	for _, v := range fresh {
		os.MkdirAll(repDir, 0o755)
		path := filepath.Join(repDir, fmt.Sprintf("%016x.json", HashString(v.Sig)))
		b, _ := json.MarshalIndent(v, "", " ")
		os.WriteFile(path, b, 0o644)
		fmt.Printf("VIOLATION property=%s replay=%s\n", p.ID, path)
		fmt.Printf("  sig: %s\n  %s\n", v.Sig, oneLine(v.Message, 600))
	}

	// evidence
	cov := map[string]any{}
	cov["evaluations"] = cases
	cov["distinct_nontrivial"] = len(caseHashes)
	cov["rule"] = p.Rule
	sm := make([]any, 0, len(samples))
	for i, s := range samples {
		if i >= 3 {
			break
		}
		sm = append(sm, s)
	}
	cov["samples"] = sm
	cov["states"] = len(states)
	cov["states_is_lower_bound"] = statesCapped
	var totalCalls int64
	for _, v := range calls {
		totalCalls += v
	}
	cov["library_calls"] = totalCalls
	cov["calls_by_operation"] = calls
	obs := map[string]int64{}
	for k, v := range run.Counters {
		if !strings.HasPrefix(k, "call:") {
			obs[k] = v
		}
	}
	cov["monitor_observations"] = obs
	ex := map[string]int64{}
	for k, v := range obs {
		if strings.HasPrefix(k, "exhaustive:") {
			ex[strings.TrimPrefix(k, "exhaustive:")] = v
		}
	}
	if len(ex) > 0 {
		cov["exhaustive_small_scope"] = ex
		cov["exhaustive_small_scope_note"] = "for each listed tree, configuration and key universe of k keys, EVERY state reachable from the empty tree by Put/Remove (states identified by a deep reflection fingerprint incl. unexported colour/balance fields) was visited and every one of the 2k calls was made from it under the monitors (':closed' = the exploration reached its fixed point); the rest of the run is sampled, so the top-level 'exhaustive' flag is not set"
	}
	cov["workload_mechanisms_shared_by_the_checks"] = "beyond what 'rule' lists: observation gaps (in about half of the lockstep cases the observers run only after every 1st-5th, in some families up to 40th, mutating call; see obs:skipped-by-observation-gap), observers in no fixed order, reads drawn as part of the history at or next to the previous index/key, deep-copied snapshots, returned slices overwritten by the monitor after use, passed slices overwritten after the call, un-normalised comparators with magnitudes up to 2^62, struct/float/pointer element types where the property allows, large sizes (thousands of elements, peak-then-drain, 2^16 repetitions) and huge cases (10^5-10^6 elements) at fixed case indices; cases are dealt to the worker processes by a hash of their index; see DESIGN.md section 9"
	cov["worker_processes"] = w
	cov["slowest_case_ms"] = slowestMs
	cov["slowest_case_index"] = slowestIdx
	cov["case_budget_s"] = budget.Seconds()
	if len(p.Files) > 0 {
		if lc := libraryCoverage(covDir, p.Files); lc != nil {
			cov["library_blocks"] = lc
		}
	}
	for k, v := range run.Extra {
		cov[k] = v
	}
	verdict := "held on everything observed"
	if len(fresh) > 0 {
		verdict = "violated"
	} else if len(run.Inconclusive) > 0 {
		verdict = "inconclusive"
	}
	cov["verdict"] = verdict
	if len(run.Inconclusive) > 0 {
		cov["inconclusive_reasons"] = run.Inconclusive
	}
	known := len(run.Violations) - len(fresh)
	cov["known_findings_matched"] = known
	ev := map[string]any{
		"property_id": p.ID,
		"tier":        tier,
		"seed":        int64(seed),
		"level":       "exploration",
		"coverage":    cov,
		"assumptions": p.Assumptions,
		"wall_s":      time.Since(t0).Seconds(),
		"violations":  len(fresh),
	}
	os.MkdirAll(filepath.Join(outDir, "evidence"), 0o755)
	eb, _ := json.MarshalIndent(ev, "", " ")
	os.WriteFile(filepath.Join(outDir, "evidence", p.ID+".json"), eb, 0o644)

	fmt.Printf("%s %s seed=%d: %d cases (%d distinct non-trivial), %d library calls, %d distinct states, %.1fs: %s\n",
		p.ID, tier, seed, cases, len(caseHashes), totalCalls, len(states), time.Since(t0).Seconds(), verdict)
	if len(fresh) > 0 {
		return 1
	}
	if len(run.Inconclusive) > 0 {
		for _, r := range run.Inconclusive {
			fmt.Printf("INCONCLUSIVE property=%s reason=%s\n", p.ID, oneLine(r, 500))
		}
		return 3
	}
	return 0
}

func childCmd(exe, id, tier string, seed uint64, k, w, n int, work string, only int, verbose string, env []string, budget time.Duration) *exec.Cmd {
	args := []string{"child", "-prop", id, "-tier", tier, "-seed", strconv.FormatUint(seed, 10), "-k", strconv.Itoa(k), "-w", strconv.Itoa(w), "-n", strconv.Itoa(n), "-dir", work, "-only", strconv.Itoa(only), "-budget", strconv.FormatInt(int64(budget/time.Millisecond), 10)}
	if verbose != "" {
		args = append(args, "-verbose", verbose)
	}
	cmd := exec.Command(exe, args...)
	cmd.Env = env
	so, _ := os.Create(filepath.Join(work, fmt.Sprintf("out_%d", k)))
	se, _ := os.Create(filepath.Join(work, fmt.Sprintf("err_%d", k)))
	cmd.Stdout = so
	cmd.Stderr = se
	cmd.Stdin = nil
	return cmd
}

func runWithTimeout(cmd *exec.Cmd, d time.Duration) error {
	if err := cmd.Start(); err != nil {
		return err
	}
	done := make(chan error, 1)
	go func() { done <- cmd.Wait() }()
	select {
	case err := <-done:
		return err
	case <-time.After(d):
		cmd.Process.Kill()
		<-done
		return fmt.Errorf("timed out after %v", d)
	}
}

func exitCode(err error) int {
	if ee, ok := err.(*exec.ExitError); ok {
		return ee.ExitCode()
	}
	return 0
}

func fileSize(p string) int64 {
	fi, err := os.Stat(p)
	if err != nil {
		return 0
	}
	return fi.Size()
}

func readProgress(p string) int {
	b, err := os.ReadFile(p)
	if err != nil {
		return -1
	}
	v, err := strconv.Atoi(strings.TrimSpace(string(b)))
	if err != nil {
		return -1
	}
	return v
}

func headOf(p string) string {
	b, _ := os.ReadFile(p)
	if len(b) > 200 {
		b = b[:200]
	}
	return string(b)
}

func tailOf(p string, n int) string {
	b, _ := os.ReadFile(p)
	if len(b) > n {
		b = b[len(b)-n:]
	}
	return string(b)
}

func tailLines(p string, n int) []string {
	b, _ := os.ReadFile(p)
	ls := strings.Split(strings.TrimRight(string(b), "\n"), "\n")
	if len(ls) > n {
		ls = ls[len(ls)-n:]
	}
	return ls
}

func lastLine(p string) string {
	ls := tailLines(p, 1)
	if len(ls) == 0 {
		return ""
	}
	return strings.TrimSpace(ls[0])
}

func splitOp(line string) (string, string) {
	// "  12 obj.op(args)"
	f := strings.Fields(line)
	if len(f) < 2 {
		return "unknown", "unknown"
	}
	s := f[1]
	if i := strings.IndexByte(s, '('); i >= 0 {
		s = s[:i]
	}
	if i := strings.IndexByte(s, '.'); i >= 0 {
		return s[:i], s[i+1:]
	}
	return s, "unknown"
}

func fatalClass(stderr string) string {
	switch {
	case strings.Contains(stderr, "stack overflow"), strings.Contains(stderr, "goroutine stack exceeds"):
		return "stack-overflow"
	case strings.Contains(stderr, "concurrent map"):
		return "concurrent-map-access"
	case strings.Contains(stderr, "out of memory"), strings.Contains(stderr, "cannot allocate"):
		return "out-of-memory"
	case strings.Contains(stderr, "SIGQUIT"):
		return "no-progress"
	case stderr == "":
		return "no-progress-or-silent-exit"
	case strings.Contains(stderr, "DATA RACE"):
		return "data-race"
	}
	return "process-died"
}

func oneLine(s string, n int) string {
	s = strings.ReplaceAll(s, "\n", " ⏎ ")
	if len(s) > n {
		s = s[:n] + "…"
	}
	return s
}

// ReplayMain re-runs the single case named in a replay file, verbosely.
func ReplayMain(path, verifDir string) int {
	b, err := os.ReadFile(path)
	if err != nil {
		fmt.Println("cannot read replay file:", err)
		return 2
	}
	var v Violation
	if err := json.Unmarshal(b, &v); err != nil {
		fmt.Println("bad replay file:", err)
		return 2
	}
	p := Lookup(v.Property)
	if p == nil {
		fmt.Println("unknown property", v.Property)
		return 2
	}
	if v.Par {
		return replayPar(p, &v)
	}
	if v.Index < 0 {
		fmt.Println("this violation was observed at process level (no single case); re-run the check itself")
		return 2
	}
	st := NewStats()
	c := newCtx(p, v.Seed, v.Tier, v.Index, st)
	c.Verbose = os.Stdout
	budget := 2 * p.caseBudget(v.Tier)
	go func() {
		time.Sleep(budget)
		fmt.Printf("REPRODUCED property=%s: the case made no progress within %v (twice its budget); the last call printed above did not return\n", p.ID, budget)
		os.Exit(1)
	}()
	c.RunCase(p.Run)
	if c.Viol != nil {
		fmt.Printf("REPRODUCED property=%s sig=%s\n  %s\n", p.ID, c.Viol.Sig, c.Viol.Message)
		if c.Viol.Stack != "" {
			fmt.Println(c.Viol.Stack)
		}
		return 1
	}
	fmt.Printf("case %d of %s (%s, seed %d) ran without violation\n", v.Index, p.ID, v.Tier, v.Seed)
	return 0
}

// RunSingleChild runs one case in a child of its own (used for liveness
// canaries) and reports the violations it recorded, its exit status and
// whether it completed.
func RunSingleChild(run *RunInfo, k, only int, extraEnv []string, budget time.Duration) ([]*Violation, int, bool) {
	exe, _ := os.Executable()
	env := append(os.Environ(), extraEnv...)
	cmd := childCmd(exe, run.Prop.ID, run.Tier, run.Seed, k, 1, only+1, run.WorkDir, only, "", env, budget)
	err := runWithTimeout(cmd, budget+60*time.Second)
	var res childResult
	b, e2 := os.ReadFile(filepath.Join(run.WorkDir, fmt.Sprintf("result_%d.json", k)))
	done := e2 == nil && json.Unmarshal(b, &res) == nil && res.Done
	return res.Violations, exitCode(err), done
}
