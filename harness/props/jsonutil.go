package props

import (
	"encoding/json"
	"sort"
	"strings"
)

// canonJSON renders a JSON document so that documents that differ only in
// the order of object members (and, for top-level arrays of the unordered
// hash containers, element order) compare equal.
func canonJSON(b []byte) string {
	var v any
	if err := json.Unmarshal(b, &v); err != nil {
		return "unparseable: " + string(b)
	}
	if arr, ok := v.([]any); ok {
		strs := make([]string, len(arr))
		for i, e := range arr {
			eb, _ := json.Marshal(e)
			strs[i] = string(eb)
		}
		sort.Strings(strs)
		return "[" + strings.Join(strs, ",") + "]"
	}
	out, _ := json.Marshal(v) // object members sorted by key
	return string(out)
}

func firstNonSpace(b []byte) byte {
	for _, ch := range b {
		if ch != ' ' && ch != '\t' && ch != '\n' && ch != '\r' {
			return ch
		}
	}
	return 0
}
