// Package props wires each property C01..C18 to its monitors and workloads.
package props

import (
	"cmp"
	"encoding/json"
	"fmt"
	"math"
	"sort"
	"strings"

	"godsverif/core"
)

// NamedCmp is a comparator with a name for traces.
type NamedCmp[T any] struct {
	Name string
	F    func(a, b T) int
}

// Dom describes an element/key domain: a small dense alphabet (collisions,
// repeats, re-insertion), probe values lying strictly between alphabet
// neighbours, a wide generator, and the comparator families of DESIGN §3.
type Dom[T comparable] struct {
	Name  string
	Alpha []T
	Probe []T // values not in Alpha (between neighbours, below min, above max)
	Wide  func(r *core.R) T
	Cmps  []NamedCmp[T] // [0] natural, [1] reversed, [2] coarsened (many-to-one), [3] natural with un-normalised results
	// Builtin, for ordered types, constructs the named container with the
	// package's New (no comparator argument); its order must be Cmps[0].
	Builtin func(kind string, order int) any
	Fmt     func(T) string
}

// magnitude gives un-normalised comparators result sizes from all ranges a
// real comparator (a-b on small ints, on timestamps, on hashes) produces:
// 2..1000, just above 2^8, 2^15, 2^31, and around 2^62. Only the sign means
// anything.
func magnitude(x uint64) int {
	switch x % 6 {
	case 0:
		return 2 + int(x%999)
	case 1:
		return 1<<8 + int(x%7)
	case 2:
		return 1<<15 + int(x%7)
	case 3:
		return 1<<31 + int(x%1000)
	case 4:
		return 1<<32 + 1
	default:
		return 1<<62 - int(x%1000)
	}
}

// scale turns a normalised comparator result into an un-normalised one of the
// same sign: usually c times a magnitude, and sometimes the extreme results
// math.MinInt / math.MaxInt (what a saturating or hash-derived comparator
// returns; -math.MinInt is not representable).
func scale(c int, x uint64) int {
	if c == 0 {
		return 0
	}
	if x%11 == 10 {
		if c < 0 {
			return math.MinInt
		}
		return math.MaxInt
	}
	return c * magnitude(x)
}

func floorDiv(a, b int) int {
	q := a / b
	if (a%b != 0) && ((a < 0) != (b < 0)) {
		q--
	}
	return q
}

// viaFactory returns f (or its reverse) as a closure of ONE function literal:
// all comparators made here share a code pointer and differ only in what they
// captured, like the asc/desc comparators real programs get from one factory.
// Whoever tells comparators apart by reflect.ValueOf(f).Pointer() sees one.
//
//go:noinline
func viaFactory[T any](f func(a, b T) int, flip bool) func(a, b T) int {
	return func(a, b T) int {
		if flip {
			return f(b, a)
		}
		return f(a, b)
	}
}

var intCmps = []NamedCmp[int]{
	{"natural", func(a, b int) int { return cmp.Compare(a, b) }},
	{"reversed", func(a, b int) int { return cmp.Compare(b, a) }},
	{"coarse12", func(a, b int) int { return cmp.Compare(floorDiv(a, 12), floorDiv(b, 12)) }},
	// a valid order whose results are not normalised to -1/0/+1 (like a-b,
	// but without overflow): only the sign carries meaning
	{"natural-unnormalised", func(a, b int) int { return scale(cmp.Compare(a, b), uint64(a)^uint64(b)) }},
}

var strCmps = []NamedCmp[string]{
	{"natural", func(a, b string) int { return strings.Compare(a, b) }},
	{"reversed", func(a, b string) int { return strings.Compare(b, a) }},
	{"caseless", func(a, b string) int { return strings.Compare(strings.ToLower(a), strings.ToLower(b)) }},
	{"natural-unnormalised", func(a, b string) int { return scale(strings.Compare(a, b), uint64(len(a)*31+len(b))) }},
}

// IntDom: alphabet values are spaced by 6 so that probes strictly between
// neighbours exist; coarse12 makes pairs of neighbours compare equal.
func IntDom(n int) *Dom[int] {
	d := &Dom[int]{Name: "int", Cmps: intCmps, Fmt: func(v int) string { return fmt.Sprint(v) }, Builtin: builtinFor[int]()}
	for i := 0; i < n; i++ {
		d.Alpha = append(d.Alpha, i*6)
		d.Probe = append(d.Probe, i*6+3)
	}
	d.Probe = append(d.Probe, -3, -100, n*6+50, math.MinInt, math.MaxInt)
	d.Wide = func(r *core.R) int { return r.Intn(1<<20) * 6 }
	return d
}

// wideAnchors are ints from the whole range of the type: both extremes and
// their neighbours, values more than MaxInt apart from each other (a-b wraps
// around), the 2^31/2^32/2^53 marks, small negatives and zero.
var wideAnchors = []int{
	math.MinInt, math.MinInt + 1, math.MinInt + 12, -6000000000000000000, -(1 << 62) - 1, -(1 << 62), -4000000000000000000,
	-(1 << 53), -(1 << 32) - 1, -(1 << 31) - 1, -(1 << 31), -1000003, -300, -13, -12, -7, -2, -1, 0, 1, 2, 5, 11, 12, 255, 256, 65536,
	1<<31 - 1, 1 << 31, 1 << 32, 1 << 53, 3000000000000000000, 1 << 62, 1<<62 + 1, 5000000000000000000, 6000000000000000000,
	math.MaxInt - 12, math.MaxInt - 1, math.MaxInt,
}

// WideIntDom: an int alphabet of n values drawn from the whole range of the
// type - negatives, both extremes, pairs further apart than MaxInt. Whoever
// compares by subtraction, indexes by the value, sorts by the unsigned bit
// pattern or treats a negative or the zero value as "absent" meets them here.
// The comparators of intCmps are overflow-free, so they stay valid orders.
func WideIntDom(r *core.R, n int) *Dom[int] {
	d := &Dom[int]{Name: "wide-int", Cmps: intCmps, Fmt: func(v int) string { return fmt.Sprint(v) }, Builtin: builtinFor[int]()}
	perm := r.Perm(len(wideAnchors))
	if n > len(wideAnchors)-6 {
		n = len(wideAnchors) - 6
	}
	for i, p := range perm {
		if i < n {
			d.Alpha = append(d.Alpha, wideAnchors[p])
		} else {
			d.Probe = append(d.Probe, wideAnchors[p])
		}
	}
	d.Wide = func(r *core.R) int { return int(r.U64()) }
	return d
}

// wideIntKey is ascending in the natural order and spreads 2^15 indices over
// the whole range of int.
func wideIntKey(i int) int {
	if i < 0 || i >= 1<<15 {
		panic("wideIntKey: index out of range")
	}
	return (i - 1<<14) * (1 << 49)
}

var strAlphabet = []string{"", "a", "A", "ab", "b", "B", "k1", "\"k1\"", "a\"q", "a\\b", "b\aell", "<>&", "é", "1", "\x7f", "10", "0", "null", "a b", " ", "zz", "Zz", "{}", "[1]", "true", "\u2028"}

func StrDom(n int) *Dom[string] {
	d := &Dom[string]{Name: "string", Cmps: strCmps, Fmt: func(v string) string { return fmt.Sprintf("%q", v) }, Builtin: builtinFor[string]()}
	if n > len(strAlphabet) {
		n = len(strAlphabet)
	}
	d.Alpha = append(d.Alpha, strAlphabet[:n]...)
	d.Probe = []string{"\x00", "a0", "aa", "zzz", "~", "Ab", "AB", "k", "k10", "￿"}
	d.Wide = func(r *core.R) string {
		l := r.Range(0, 6)
		b := make([]byte, l)
		for i := range b {
			b[i] = "abcABC01\"\\<é "[r.Intn(13)]
		}
		return strings.ToValidUTF8(string(b), "?")
	}
	return d
}

// J is a JSON-representable struct element: one field is omitted from the
// document when it is empty, so a decoder that reuses its target inherits the
// previous element's value.
type J struct {
	N   int    `json:"n"`
	Tag string `json:"tag,omitempty"`
}

func jCmp(a, b J) int {
	if c := cmp.Compare(a.N, b.N); c != 0 {
		return c
	}
	return strings.Compare(a.Tag, b.Tag)
}

var jCmps = []NamedCmp[J]{
	{"natural", jCmp},
	{"reversed", func(a, b J) int { return jCmp(b, a) }},
	{"by-N-only", func(a, b J) int { return cmp.Compare(a.N, b.N) }},
	{"natural-unnormalised", func(a, b J) int { return scale(jCmp(a, b), uint64(a.N)*31+uint64(len(a.Tag))+uint64(b.N)) }},
}

// JDom: alphabet values alternate between an empty and a non-empty Tag.
func JDom(n int) *Dom[J] {
	d := &Dom[J]{Name: "json-struct", Cmps: jCmps, Fmt: func(v J) string { return fmt.Sprintf("{%d %q}", v.N, v.Tag) }}
	for i := 0; i < n; i++ {
		d.Alpha = append(d.Alpha, J{(i / 2) * 6, []string{"", "urgent", "", "low"}[i%4]})
		d.Probe = append(d.Probe, J{(i/2)*6 + 3, "p"})
	}
	d.Probe = append(d.Probe, J{-3, ""}, J{n*6 + 50, "zz"})
	d.Wide = func(r *core.R) J { return J{r.Intn(1<<20) * 6, []string{"", "x", "", "y"}[r.Intn(4)]} }
	return d
}

// PS / *PS: pointer elements whose String method dereferences its receiver.
// fmt shields callers from nil receivers ("<nil>"); code that calls String()
// itself does not. The nil pointer is a perfectly good element.
type PS struct{ Name string }

func (p *PS) String() string { return "PS(" + p.Name + ")" }

func psCmp(a, b *PS) int {
	switch {
	case a == nil && b == nil:
		return 0
	case a == nil:
		return -1
	case b == nil:
		return 1
	}
	return strings.Compare(a.Name, b.Name)
}

var psPool = []*PS{nil, {"a"}, {"b"}, {"c"}, {"d"}, {"e"}, {"f"}, {"g"}}

// PDom: the alphabet is a fixed pool of pointers, the first of which is nil.
func PDom() *Dom[*PS] {
	d := &Dom[*PS]{Name: "pointer", Fmt: func(v *PS) string { return fmt.Sprint(v) }}
	d.Cmps = []NamedCmp[*PS]{{"natural", psCmp}, {"reversed", func(a, b *PS) int { return psCmp(b, a) }}, {"natural", psCmp}, {"natural", psCmp}}
	d.Alpha = append(d.Alpha, psPool...)
	d.Probe = []*PS{{"zz"}, {""}, {"a"}}
	d.Wide = func(r *core.R) *PS { return &PS{Name: string(rune('a' + r.Intn(26)))} }
	return d
}

// PK / *PK: pointer KEYS. Identity is the pointer; the order is by N. nil is
// never a key, a probe or an argument, so a library that passes the zero value
// of the key type to the comparator is caught where the comparator is handed
// over (outsideDomain in kv.go). The comparators below tolerate nil, because
// the monitors also look at what the library RETURNS.
type PK struct{ N int }

func (p *PK) String() string {
	if p == nil {
		return "PK(nil)"
	}
	return fmt.Sprintf("PK(%d)", p.N)
}

func pkN(p *PK) int {
	if p == nil {
		return math.MinInt
	}
	return p.N
}

// PKDom returns the domain and its ascending key function (the same index
// always yields the same pointer).
func PKDom(n int) (*Dom[*PK], func(int) *PK) {
	d := &Dom[*PK]{Name: "pointer-key", Fmt: func(v *PK) string { return v.String() }}
	nat := func(a, b *PK) int { return cmp.Compare(pkN(a), pkN(b)) }
	d.Cmps = []NamedCmp[*PK]{
		{"natural", nat},
		{"reversed", func(a, b *PK) int { return nat(b, a) }},
		{"coarse12", func(a, b *PK) int { return cmp.Compare(floorDiv(pkN(a), 12), floorDiv(pkN(b), 12)) }},
		{"natural-unnormalised", func(a, b *PK) int { return scale(nat(a, b), uint64(pkN(a))^uint64(pkN(b))) }},
	}
	pool := map[int]*PK{}
	at := func(v int) *PK {
		if p, ok := pool[v]; ok {
			return p
		}
		p := &PK{N: v}
		pool[v] = p
		return p
	}
	for i := 0; i < n; i++ {
		d.Alpha = append(d.Alpha, at(i*6))
		d.Probe = append(d.Probe, at(i*6+3))
	}
	d.Probe = append(d.Probe, at(-3), at(-100), at(n*6+50), at(math.MaxInt))
	d.Wide = func(r *core.R) *PK { return at(r.Intn(1<<20) * 6) }
	return d, func(i int) *PK { return at(i * 6) }
}

// Z is a zero-size element type: every value is the same value, unsafe.Sizeof
// is 0, and all Z elements of a slice may share one address. Code that divides
// by the element size, or tells elements apart by address, meets it here.
type Z struct{}

func ZDom() *Dom[Z] {
	zc := func(a, b Z) int { return 0 }
	return &Dom[Z]{Name: "zero-size-struct", Alpha: []Z{{}}, Probe: []Z{{}},
		Cmps: []NamedCmp[Z]{{"all-equal", zc}, {"all-equal", zc}, {"all-equal", zc}, {"all-equal", zc}},
		Wide: func(r *core.R) Z { return Z{} }, Fmt: func(Z) string { return "{}" }}
}

// PTwinDom: pointer elements among which several DISTINCT pointers have deeply
// equal pointees (and one is nil). Identity is the pointer, not what it points
// to: whoever compares elements with reflect.DeepEqual or by formatting them
// confuses the twins.
var psTwins = []*PS{nil, {"a"}, {"a"}, {"b"}, {"b"}, {"a"}, {"c"}, {""}, {""}}

func PTwinDom() *Dom[*PS] {
	d := PDom()
	d.Name = "pointer-twins"
	d.Alpha = append([]*PS(nil), psTwins...)
	d.Probe = []*PS{{"a"}, {"zz"}, {""}}
	return d
}

// FatDom: elements of a few kilobytes (see Fat): code paths chosen by element
// size, and every place that takes the address of a loop variable.
func FatDom(n int) *Dom[Fat] {
	mk := func(id int) Fat {
		f := Fat{ID: id}
		f.Pad[0], f.Pad[599] = int64(id), int64(-id)
		return f
	}
	byID := func(a, b Fat) int { return cmp.Compare(a.ID, b.ID) }
	d := &Dom[Fat]{Name: "fat-struct", Fmt: func(v Fat) string { return v.String() }}
	d.Cmps = []NamedCmp[Fat]{{"natural", byID}, {"reversed", func(a, b Fat) int { return byID(b, a) }},
		{"coarse12", func(a, b Fat) int { return cmp.Compare(floorDiv(a.ID, 12), floorDiv(b.ID, 12)) }},
		{"natural-unnormalised", func(a, b Fat) int { return scale(byID(a, b), uint64(a.ID)^uint64(b.ID)) }}}
	for i := 0; i < n; i++ {
		d.Alpha = append(d.Alpha, mk(i*6))
		d.Probe = append(d.Probe, mk(i*6+3))
	}
	d.Probe = append(d.Probe, mk(-3), mk(n*6+50))
	d.Wide = func(r *core.R) Fat { return mk(r.Intn(1<<20) * 6) }
	return d
}

// FDom: float elements including NaN and the infinities (values encoding/json
// refuses to encode; keys that are not equal to themselves).
func FDom() *Dom[float64] {
	d := &Dom[float64]{Name: "float", Fmt: func(v float64) string { return fmt.Sprint(v) }, Builtin: builtinFor[float64]()}
	fc := func(a, b float64) int { return cmp.Compare(a, b) }
	d.Cmps = []NamedCmp[float64]{{"natural", fc}, {"reversed", func(a, b float64) int { return fc(b, a) }}, {"natural", fc}, {"natural", fc}}
	d.Alpha = []float64{0, 1.5, math.NaN(), -2.25, math.Inf(1), math.Inf(-1), 1e300, 3}
	d.Probe = []float64{0.5, math.NaN(), -1e-300}
	d.Wide = func(r *core.R) float64 { return float64(r.Intn(1<<20)) / 8 }
	return d
}

// identical is == made reflexive: a NaN is the same element as a NaN.
func identical[T comparable](a, b T) bool { return a == b || (a != a && b != b) }

// FKeyDom: float64 keys for the ordered containers. cmp.Compare is a strict
// weak order on all floats (NaN is the least key and equal to itself, -0 and
// +0 are one key), but Go's == is not reflexive on NaN, so anything that finds
// "its" key again with == instead of the comparator loses it.
func FKeyDom(n int) *Dom[float64] {
	d := &Dom[float64]{Name: "float-key", Fmt: func(v float64) string { return fmt.Sprint(v) }, Builtin: builtinFor[float64]()}
	fc := func(a, b float64) int { return cmp.Compare(a, b) }
	d.Cmps = []NamedCmp[float64]{
		{"natural", fc},
		{"reversed", func(a, b float64) int { return fc(b, a) }},
		{"coarse12", func(a, b float64) int { return fc(math.Floor(a/12), math.Floor(b/12)) }},
		{"natural-unnormalised", func(a, b float64) int { return scale(fc(a, b), math.Float64bits(a)^math.Float64bits(b)) }},
	}
	d.Alpha = []float64{math.NaN(), math.Inf(-1), math.Inf(1), math.Copysign(0, -1)}
	for i := 0; len(d.Alpha) < n+4; i++ {
		d.Alpha = append(d.Alpha, float64(i*6))
		d.Probe = append(d.Probe, float64(i*6+3))
	}
	d.Probe = append(d.Probe, -3, -1e300, 1e300, -100.5)
	d.Wide = func(r *core.R) float64 { return float64(r.Intn(1<<20)) * 0.75 }
	return d
}

// floatKey is ascending in the natural order: NaN, -Inf, then finite values.
func floatKey(i int) float64 {
	switch i {
	case 0:
		return math.NaN()
	case 1:
		return math.Inf(-1)
	}
	return float64(i-2) * 0.75
}

// PJ is an element type whose JSON hooks are declared on the POINTER receiver:
// encoding/json only finds them on addressable values (the elements of a slice
// are, a copy taken out of a node is not).
type PJ struct{ C int }

func (p *PJ) MarshalJSON() ([]byte, error) { return []byte(fmt.Sprintf("\"%dC\"", p.C)), nil }

func (p *PJ) UnmarshalJSON(b []byte) error {
	var s string
	if err := json.Unmarshal(b, &s); err != nil {
		return err
	}
	if !strings.HasSuffix(s, "C") {
		return fmt.Errorf("not a temperature: %q", s)
	}
	_, err := fmt.Sscanf(s, "%dC", &p.C)
	return err
}

func PJDom(n int) *Dom[PJ] {
	byC := func(a, b PJ) int { return cmp.Compare(a.C, b.C) }
	d := &Dom[PJ]{Name: "pointer-receiver-json", Fmt: func(v PJ) string { return fmt.Sprintf("%dC", v.C) }}
	d.Cmps = []NamedCmp[PJ]{{"natural", byC}, {"reversed", func(a, b PJ) int { return byC(b, a) }},
		{"coarse12", func(a, b PJ) int { return cmp.Compare(floorDiv(a.C, 12), floorDiv(b.C, 12)) }},
		{"natural-unnormalised", func(a, b PJ) int { return scale(byC(a, b), uint64(a.C)^uint64(b.C)) }}}
	for i := 0; i < n; i++ {
		d.Alpha = append(d.Alpha, PJ{i * 6})
		d.Probe = append(d.Probe, PJ{i*6 + 3})
	}
	d.Probe = append(d.Probe, PJ{-3}, PJ{n*6 + 50})
	d.Wide = func(r *core.R) PJ { return PJ{r.Intn(1<<20) * 6} }
	return d
}

// TK is a string-kinded key type that writes and reads itself as JSON text
// through encoding.TextMarshaler / TextUnmarshaler: as a map key it appears in
// documents as "tk:<text>", and a member name without that prefix decodes to
// the key "raw:<name>". Whoever decodes object keys by looking at the KIND of
// the key type instead of letting encoding/json do it gets other keys.
type TK string

func (t TK) MarshalText() ([]byte, error) { return []byte("tk:" + string(t)), nil }

func (t *TK) UnmarshalText(b []byte) error {
	if strings.HasPrefix(string(b), "tk:") {
		*t = TK(b[3:])
	} else {
		*t = TK("raw:" + string(b))
	}
	return nil
}

var tkCmps = []NamedCmp[TK]{
	{"natural", func(a, b TK) int { return strings.Compare(string(a), string(b)) }},
	{"reversed", func(a, b TK) int { return strings.Compare(string(b), string(a)) }},
	{"caseless", func(a, b TK) int { return strings.Compare(strings.ToLower(string(a)), strings.ToLower(string(b))) }},
	{"natural-unnormalised", func(a, b TK) int { return scale(strings.Compare(string(a), string(b)), uint64(len(a)*31+len(b))) }},
}

func TKDom(n int) *Dom[TK] {
	d := &Dom[TK]{Name: "text-key", Cmps: tkCmps, Fmt: func(v TK) string { return fmt.Sprintf("%q", string(v)) }}
	if n > len(strAlphabet) {
		n = len(strAlphabet)
	}
	for _, s := range strAlphabet[:n] {
		d.Alpha = append(d.Alpha, TK(s))
	}
	d.Probe = []TK{"\x00", "a0", "aa", "zzz", "~", "tk:", "raw:a"}
	d.Wide = func(r *core.R) TK { return TK(StrDom(4).Wide(r)) }
	return d
}

// SID is a DEFINED string type without methods: encoding/json writes and reads
// it exactly like string (as element and as object key), `any(x).(string)`
// does not hold for it. Code that special-cases the predeclared type instead
// of the kind treats it differently.
type SID string

var sidCmps = []NamedCmp[SID]{
	{"natural", func(a, b SID) int { return strings.Compare(string(a), string(b)) }},
	{"reversed", func(a, b SID) int { return strings.Compare(string(b), string(a)) }},
	{"caseless", func(a, b SID) int { return strings.Compare(strings.ToLower(string(a)), strings.ToLower(string(b))) }},
	{"natural-unnormalised", func(a, b SID) int { return scale(strings.Compare(string(a), string(b)), uint64(len(a)*31+len(b))) }},
}

func SIDDom(n int) *Dom[SID] {
	d := &Dom[SID]{Name: "defined-string", Cmps: sidCmps, Fmt: func(v SID) string { return fmt.Sprintf("%q", string(v)) }}
	if n > len(strAlphabet) {
		n = len(strAlphabet)
	}
	for _, s := range strAlphabet[:n] {
		d.Alpha = append(d.Alpha, SID(s))
	}
	d.Probe = []SID{"\x00", "a0", "aa", "zzz", "~", "Ab"}
	d.Wide = func(r *core.R) SID { return SID(StrDom(4).Wide(r)) }
	return d
}

// AnyDom: elements / map values of the interface type `any`, holding exactly
// the dynamic types encoding/json produces when it decodes into an interface
// (float64, string, bool, nil), so that a round trip must give back equal
// values of the same dynamic type. A loader that decodes numbers differently
// (json.Number, int) changes values that print the same.
func anyRank(v any) (int, float64, string) {
	switch x := v.(type) {
	case nil:
		return 0, 0, ""
	case bool:
		if x {
			return 1, 1, ""
		}
		return 1, 0, ""
	case float64:
		return 2, x, ""
	case string:
		return 3, 0, x
	}
	return 4, 0, fmt.Sprintf("%T:%v", v, v)
}

func anyCmp(a, b any) int {
	ra, fa, sa := anyRank(a)
	rb, fb, sb := anyRank(b)
	if c := cmp.Compare(ra, rb); c != 0 {
		return c
	}
	if c := cmp.Compare(fa, fb); c != 0 {
		return c
	}
	return strings.Compare(sa, sb)
}

var anyCmps = []NamedCmp[any]{
	{"natural", anyCmp},
	{"reversed", func(a, b any) int { return anyCmp(b, a) }},
	{"by-kind", func(a, b any) int { ra, _, _ := anyRank(a); rb, _, _ := anyRank(b); return cmp.Compare(ra, rb) }},
	{"natural-unnormalised", func(a, b any) int { return scale(anyCmp(a, b), 77) }},
}

func AnyDom(n int) *Dom[any] {
	d := &Dom[any]{Name: "any", Cmps: anyCmps, Fmt: func(v any) string { return fmt.Sprintf("%T(%v)", v, v) }}
	all := []any{3.25, "3.25", 7.0, nil, true, "", -0.5, false, "seven", 1e21, 12.0, "null", 0.0, "true", 6.0, 1.0}
	if n > len(all) {
		n = len(all)
	}
	d.Alpha = append(d.Alpha, all[:n]...)
	d.Probe = []any{2.5, "absent", -7.0, "7"}
	d.Wide = func(r *core.R) any { return float64(r.Intn(1<<20)) / 4 }
	return d
}

// SK is a struct element/key type (comparable, no natural order): generic
// code must not depend on the element being a built-in scalar.
type SK struct {
	A int
	B string
}

// SK carries methods that generic code might be tempted to discover by a type
// assertion on any(element) and to prefer over what it was given: an Equal
// coarser than == (the alphabet holds pairs that are Equal but different),
// Compare/Less that contradict every comparator in use, an IsZero that is true
// for live values, a constant Hash, a Len. A container identifies elements by
// == or by its comparator and by nothing else.
func (a SK) Equal(o SK) bool  { return a.A == o.A }
func (a SK) Compare(o SK) int { return strings.Compare(o.B, a.B) }
func (a SK) Less(o SK) bool   { return a.B > o.B }
func (a SK) IsZero() bool     { return a.B == "x" }
func (a SK) Hash() uint64     { return 7 }
func (a SK) Len() int         { return 0 }

func skCmp(a, b SK) int {
	if c := cmp.Compare(a.A, b.A); c != 0 {
		return c
	}
	return strings.Compare(a.B, b.B)
}

var skCmps = []NamedCmp[SK]{
	{"natural", skCmp},
	{"reversed", func(a, b SK) int { return skCmp(b, a) }},
	{"by-A-only", func(a, b SK) int { return cmp.Compare(a.A, b.A) }}, // many ties between distinguishable keys
	{"natural-unnormalised", func(a, b SK) int { return scale(skCmp(a, b), uint64(a.A)^uint64(b.A)^uint64(len(a.B))) }},
}

// StructDom: n alphabet values {A: i/2*6, B: "x" or "y"}; probes lie between.
func StructDom(n int) *Dom[SK] {
	d := &Dom[SK]{Name: "struct", Cmps: skCmps, Fmt: func(v SK) string { return fmt.Sprintf("{%d %q}", v.A, v.B) }}
	for i := 0; i < n; i++ {
		d.Alpha = append(d.Alpha, SK{(i / 2) * 6, []string{"x", "y"}[i%2]})
		d.Probe = append(d.Probe, SK{(i/2)*6 + 3, "p"})
	}
	d.Probe = append(d.Probe, SK{-3, ""}, SK{n*6 + 50, "zz"}, SK{math.MinInt, "x"}, SK{math.MaxInt, "y"})
	d.Wide = func(r *core.R) SK { return SK{r.Intn(1<<20) * 6, []string{"x", "y", ""}[r.Intn(3)]} }
	return d
}

func structKey(i int) SK { return SK{(i / 2) * 6, []string{"x", "y"}[i%2]} }

func (d *Dom[T]) Val(r *core.R) T { return d.Alpha[r.Intn(len(d.Alpha))] }

func (d *Dom[T]) Vals(r *core.R, n int) []T {
	vs := make([]T, n)
	for i := range vs {
		vs[i] = d.Val(r)
	}
	return vs
}

// AnyVal is mostly an alphabet value, sometimes a probe.
func (d *Dom[T]) AnyVal(r *core.R) T {
	if len(d.Probe) > 0 && r.Chance(1, 4) {
		return d.Probe[r.Intn(len(d.Probe))]
	}
	return d.Val(r)
}

// variadic argument counts of DESIGN §3.
var variadicCounts = []int{0, 1, 1, 1, 2, 2, 3, 3, 17}

// bigVariadicCounts: batch sizes around the thresholds at which bulk paths
// typically switch (64, 256, 1024).
var bigVariadicCounts = []int{63, 64, 65, 255, 256, 257, 1000, 1024, 1025}

func varCount(r *core.R) int { return variadicCounts[r.Intn(len(variadicCounts))] }

// varCountBig is varCount with an occasional batch of threshold size (used
// where the monitor's own cost stays linear in the container's size).
func varCountBig(r *core.R) int {
	if r.Intn(60) == 0 {
		return bigVariadicCounts[r.Intn(len(bigVariadicCounts))]
	}
	return variadicCounts[r.Intn(len(variadicCounts))]
}

// hostileIndex draws an index for a container of size n.
func hostileIndex(r *core.R, n int) int {
	switch r.Intn(16) {
	case 0:
		return math.MinInt
	case 1:
		return -1
	case 2:
		return 0
	case 3:
		return 1
	case 4:
		return n/2 - 1
	case 5:
		return n / 2
	case 6:
		return n/2 + 1
	case 7:
		return n - 2
	case 8:
		return n - 1
	case 9:
		return n
	case 10:
		return n + 1
	case 11:
		return math.MaxInt
	case 12:
		return -r.Range(2, 1000)
	default:
		return r.Range(0, n)
	}
}

// indexClass names the position class of index i in a container of size n.
func indexClass(i, n int) string {
	switch {
	case i < 0:
		return "negative"
	case i > n:
		return "beyond"
	case i == n:
		return "size"
	case i == 0:
		return "first"
	case i == n-1:
		return "last"
	case n-i < i:
		return "back-half"
	default:
		return "front-half"
	}
}

func countClass(k int) string {
	switch {
	case k == 0:
		return "0"
	case k == 1:
		return "1"
	default:
		return ">1"
	}
}

// eqSlices: element-wise identity (a NaN is the same element as a NaN).
func eqSlices[T comparable](a, b []T) bool {
	if len(a) != len(b) {
		return false
	}
	for i := range a {
		if !identical(a[i], b[i]) {
			return false
		}
	}
	return true
}

// sameMultiset reports whether a and b hold the same elements with the same
// multiplicities.
func sameMultiset[T comparable](a, b []T) bool {
	if len(a) != len(b) {
		return false
	}
	m := make(map[T]int, len(a))
	for _, x := range a {
		m[x]++
	}
	for _, x := range b {
		m[x]--
		if m[x] < 0 {
			return false
		}
	}
	return true
}

func short[T any](s []T) string {
	if len(s) <= 40 {
		return fmt.Sprintf("%v", s)
	}
	return fmt.Sprintf("%v … (%d elements)", s[:40], len(s))
}

func hashInts(s []int) uint64 {
	h := uint64(len(s))
	for _, v := range s {
		h = core.Mix(h, uint64(v))
	}
	return h
}

func hashVals[T any](s []T) uint64 {
	h := uint64(len(s))
	for _, v := range s {
		switch x := any(v).(type) {
		case int:
			h = core.Mix(h, uint64(x))
		case string:
			h = core.Mix(h, core.HashString(x))
		default:
			h = core.Mix(h, core.HashString(fmt.Sprintf("%v", x)))
		}
	}
	return h
}

// floorCheck is a helper to build Floors functions.
type floorCheck struct {
	missing []string
	m       map[string]int64
}

func (f *floorCheck) atLeast(name string, min int64) {
	if f.m[name] < min {
		f.missing = append(f.missing, fmt.Sprintf("%s=%d < %d", name, f.m[name], min))
	}
}

func sortedStrings(m map[string]bool) []string {
	out := make([]string, 0, len(m))
	for k := range m {
		out = append(out, k)
	}
	sort.Strings(out)
	return out
}

// ruin overwrites a slice the library returned, after the monitor is done
// with it: callers own what they get (C16), so a container that hands out its
// own memoised view must not be able to rely on well-behaved monitors either.
func ruin[T any](s []T) {
	for i, j := 0, len(s)-1; i < j; i, j = i+1, j-1 {
		s[i], s[j] = s[j], s[i]
	}
	if len(s) > 0 {
		s[0] = s[len(s)-1]
	}
}

func btoi(b bool) int {
	if b {
		return 1
	}
	return 0
}

func tierN(tier string, quick, thorough int) int {
	if tier == "thorough" {
		return thorough
	}
	return quick
}
