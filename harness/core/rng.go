// Package core holds the runtime-monitoring framework shared by all property
// checks: deterministic case derivation, the per-case context that records the
// call trace and the monitors' verdicts, the parent/child process runner, the
// evidence writer and the known-findings filter.
package core

// R is a splitmix64 stream. A case is a pure function of (seed, property,
// case index, tier) through such a stream, so every case can be re-run alone.
type R struct {
	s uint64
	// Last is scratch for generators that want consecutive draws to be related
	// (the previous index); per stream, hence per case.
	Last int
}

func NewR(seed uint64) *R { return &R{s: seed} }

func (r *R) U64() uint64 {
	r.s += 0x9e3779b97f4a7c15
	z := r.s
	z = (z ^ (z >> 30)) * 0xbf58476d1ce4e5b9
	z = (z ^ (z >> 27)) * 0x94d049bb133111eb
	return z ^ (z >> 31)
}

// Intn returns a value in [0,n). n <= 0 yields 0.
func (r *R) Intn(n int) int {
	if n <= 1 {
		return 0
	}
	return int(r.U64() % uint64(n))
}

// Range returns a value in [lo,hi] inclusive.
func (r *R) Range(lo, hi int) int {
	if hi <= lo {
		return lo
	}
	return lo + r.Intn(hi-lo+1)
}

func (r *R) Bool() bool { return r.U64()&1 == 1 }

// Chance is true with probability num/den.
func (r *R) Chance(num, den int) bool { return r.Intn(den) < num }

// Pick returns one of the weights' indices with probability proportional to it.
func (r *R) Pick(weights ...int) int {
	t := 0
	for _, w := range weights {
		t += w
	}
	x := r.Intn(t)
	for i, w := range weights {
		if x < w {
			return i
		}
		x -= w
	}
	return len(weights) - 1
}

// Perm returns a permutation of 0..n-1.
func (r *R) Perm(n int) []int {
	p := make([]int, n)
	for i := range p {
		p[i] = i
	}
	for i := n - 1; i > 0; i-- {
		j := r.Intn(i + 1)
		p[i], p[j] = p[j], p[i]
	}
	return p
}

// Mix folds values into one 64-bit hash (used to derive case seeds and
// fingerprints).
func Mix(vs ...uint64) uint64 {
	h := uint64(0x243f6a8885a308d3)
	for _, v := range vs {
		h ^= v + 0x9e3779b97f4a7c15 + (h << 6) + (h >> 2)
		h *= 0xff51afd7ed558ccd
		h ^= h >> 33
	}
	return h
}

// HashString is FNV-1a.
func HashString(s string) uint64 {
	h := uint64(14695981039346656037)
	for i := 0; i < len(s); i++ {
		h ^= uint64(s[i])
		h *= 1099511628211
	}
	return h
}
