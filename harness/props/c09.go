package props

import (
	"bytes"
	"encoding/json"
	"fmt"
	"slices"

	"godsverif/core"

	"github.com/emirpasic/gods/v2/maps/linkedhashmap"
	"github.com/emirpasic/gods/v2/sets/linkedhashset"
)

// jsonObjectKeys returns the keys of a JSON object in document order, read
// with a token decoder.
func jsonObjectKeys(data []byte) ([]string, error) {
	dec := json.NewDecoder(bytes.NewReader(data))
	tok, err := dec.Token()
	if err != nil {
		return nil, err
	}
	if d, ok := tok.(json.Delim); !ok || d != '{' {
		return nil, fmt.Errorf("not an object: starts with %v", tok)
	}
	var keys []string
	for dec.More() {
		kt, err := dec.Token()
		if err != nil {
			return nil, err
		}
		ks, ok := kt.(string)
		if !ok {
			return nil, fmt.Errorf("object key is not a string: %v", kt)
		}
		keys = append(keys, ks)
		var raw json.RawMessage
		if err := dec.Decode(&raw); err != nil {
			return nil, err
		}
	}
	if _, err := dec.Token(); err != nil {
		return nil, err
	}
	return keys, nil
}

// keyText is how encoding/json writes a key of type K as an object key.
func keyText[K comparable](k K) string {
	switch v := any(k).(type) {
	case string:
		return v
	default:
		return fmt.Sprint(v)
	}
}

// runLinkedMapOrder: LinkedHashMap enumerates (Keys, Values, iterator, Each,
// ToJSON) in insertion order since last absent.
func runLinkedMapOrder[K comparable](c *core.Ctx, d *Dom[K]) {
	m := linkedhashmap.New[K, int]()
	const name = "LinkedHashMap"
	c.Begin(name, "New")
	var order []K
	cur := map[K]int{}
	val := 0
	_, floatKeys := any(*new(K)).(float64)
	if _, ok := any(*new(K)).(SK); ok {
		floatKeys = true // struct keys have no JSON object-key form either
	}
	check := func() {
		if !c.Observe() {
			return
		}
		ks := m.Keys()
		if !eqSlices(ks, order) {
			c.Fail("order", "keys", "%s.Keys() = %s, insertion order is %s", name, short(ks), short(order))
		}
		vs := m.Values()
		if len(vs) != len(order) {
			c.Fail("order", "values-length", "%s.Values() has %d entries for %d keys", name, len(vs), len(order))
		}
		for i, k := range order {
			if k == k && vs[i] != cur[k] { // (the value listed for a NaN key, which no lookup can reach, is not constrained)
				c.Fail("order", "values", "%s.Values()[%d] = %d, the value of the %d-th inserted key %v is %d", name, i, vs[i], i, k, cur[k])
			}
		}
		ruin(ks)
		ruin(vs)
		i := 0
		for it := m.Iterator(); it.Next(); i++ {
			if i >= len(order) || !identical(it.Key(), order[i]) || (order[i] == order[i] && it.Value() != cur[order[i]]) {
				c.Fail("order", "iterator", "%s iterator yields (%v,%v) at step %d, insertion order is %s", name, it.Key(), it.Value(), i, short(order))
			}
		}
		if i != len(order) {
			c.Fail("order", "iterator-length", "%s iterator yields %d of %d keys", name, i, len(order))
		}
		bi := len(order) - 1
		bit := m.Iterator()
		for bit.End(); bit.Prev(); bi-- {
			if bi < 0 || !identical(bit.Key(), order[bi]) {
				c.Fail("order", "iterator-backward", "%s iterator, walking back from the end, yields key %v where insertion order has position %d of %s", name, bit.Key(), bi, short(order))
			}
		}
		if bi != -1 {
			c.Fail("order", "iterator-backward-length", "%s iterator, walking back from the end, stops %d keys early", name, bi+1)
		}
		i = 0
		m.Each(func(k K, v int) {
			if i >= len(order) || !identical(k, order[i]) || (k == k && v != cur[order[i]]) {
				c.Fail("order", "each", "%s.Each visits (%v,%v) at step %d, insertion order is %s", name, k, v, i, short(order))
			}
			i++
		})
		if i != len(order) {
			c.Fail("order", "each-length", "%s.Each visits %d of %d keys", name, i, len(order))
		}
		if floatKeys {
			c.Count("obs:linked-order", 1)
			return // encoding/json has no object-key form for floats
		}
		c.Begin(name, "ToJSON")
		data, err := m.ToJSON()
		if err != nil {
			c.Fail("order", "tojson-error", "%s.ToJSON() returned error %v", name, err)
		}
		jk, err := jsonObjectKeys(data)
		if err != nil {
			c.Fail("order", "tojson-unreadable", "%s.ToJSON() = %s cannot be read as a JSON object: %v", name, data, err)
		}
		want := make([]string, len(order))
		for i, k := range order {
			want[i] = keyText(k)
		}
		if !eqSlices(jk, want) {
			c.Fail("order", "tojson", "%s.ToJSON() = %s lists keys %q, insertion order is %q", name, data, jk, want)
		}
		c.Count("obs:linked-order", 1)
		c.State(core.Mix(1, hashVals(order)))
	}
	check()
	r := c.R
	steps := r.Range(20, 200)
	if len(d.Alpha) >= 200 {
		steps = 1200
	}
	_, nanKeys := any(*new(K)).(float64)
	for s := 0; s < steps; s++ {
		if !nanKeys && len(d.Alpha) < 200 && r.Intn(60) == 0 {
			// the history continues on a map the LIBRARY derived from this one:
			// Map under a key function that sends pairs of alphabet keys to one
			// key (colliding keys resolve as repeated Put would: the first
			// keeps its place, the last value wins), or Select
			idx := func(k K) int {
				for i, a := range d.Alpha {
					if a == k {
						return i
					}
				}
				return -1
			}
			if r.Bool() {
				f := func(k K) K {
					if i := idx(k); i >= 0 {
						return d.Alpha[i/2*2]
					}
					return k
				}
				c.Begin(name, "Map", "alphabet keys collapse in pairs; the history continues on the result")
				m = m.Map(func(k K, v int) (K, int) { return f(k), v })
				var no []K
				nc := map[K]int{}
				for _, k := range order {
					k2 := f(k)
					if _, ok := nc[k2]; !ok {
						no = append(no, k2)
					}
					nc[k2] = cur[k]
				}
				order, cur = no, nc
			} else {
				keep := func(k K) bool { return idx(k)%3 != 1 }
				c.Begin(name, "Select", "a third of the alphabet rejected; the history continues on the result")
				m = m.Select(func(k K, v int) bool { return keep(k) })
				var no []K
				for _, k := range order {
					if keep(k) {
						no = append(no, k)
					} else {
						delete(cur, k)
					}
				}
				order = no
			}
			c.Count("obs:derived-container", 1)
			c.ObserveNow()
			check()
			continue
		}
		if r.Intn(4) == 0 {
			// reads are part of the history: an access never moves a key
			k := d.AnyVal(r)
			c.Begin(name, "Get", k)
			v, ok := m.Get(k)
			if wv, wok := cur[k]; ok != wok || v != wv {
				c.Fail("get", "", "%s.Get(%v) = (%v,%v), want (%v,%v)", name, k, v, ok, wv, wok)
			}
			check()
			continue
		}
		switch r.Pick(50, 30, 8, btoi(len(d.Alpha) < 200)*2) {
		case 0:
			k := d.Val(r)
			val++
			c.Begin(name, "Put", k, val)
			m.Put(k, val)
			if _, ok := cur[k]; !ok { // (a NaN key is never found again: every Put of it inserts a new key)
				order = append(order, k)
				c.Count("linked:put-new", 1)
			} else {
				c.Count("linked:put-present", 1) // never moves the key
			}
			cur[k] = val
		case 1:
			var k K
			if len(order) > 0 && r.Chance(3, 4) {
				k = order[r.Intn(len(order))]
			} else {
				k = d.AnyVal(r)
			}
			c.Begin(name, "Remove", k)
			m.Remove(k)
			if i := slices.Index(order, k); i >= 0 {
				order = slices.Delete(order, i, i+1)
				delete(cur, k)
				c.Count("linked:remove-present", 1)
			}
		case 2: // remove then insert again: placed last
			if len(order) == 0 {
				continue
			}
			k := order[r.Intn(len(order))]
			if k != k {
				continue // NaN: not removable
			}
			c.Begin(name, "Remove", k)
			m.Remove(k)
			order = slices.Delete(order, slices.Index(order, k), slices.Index(order, k)+1)
			val++
			c.Begin(name, "Put", k, val)
			m.Put(k, val)
			order = append(order, k)
			cur[k] = val
			c.Count("linked:reinsert", 1)
		default:
			c.Begin(name, "Clear")
			m.Clear()
			order = nil
			cur = map[K]int{}
		}
		check()
	}
	c.ObserveNow()
	check()
	c.Nontrivial()
}

func runLinkedSetOrder[T comparable](c *core.Ctx, d *Dom[T]) {
	const name = "LinkedHashSet"
	var init []T
	if c.R.Chance(1, 3) {
		init = d.Vals(c.R, c.R.Range(1, 8))
	}
	c.Begin(name, "New", init)
	s := linkedhashset.New[T](init...)
	var order []T
	add := func(vs []T) {
		for _, v := range vs {
			if !slices.Contains(order, v) {
				order = append(order, v)
			}
		}
	}
	add(init)
	check := func() {
		if !c.Observe() {
			return
		}
		vs := s.Values()
		if !eqSlices(vs, order) {
			c.Fail("order", "values", "%s.Values() = %s, insertion order is %s", name, short(vs), short(order))
		}
		ruin(vs)
		i := 0
		it := s.Iterator()
		for it.Next() {
			if i >= len(order) || !identical(it.Value(), order[i]) || it.Index() != i {
				c.Fail("order", "iterator", "%s iterator yields (%d,%v) at step %d, insertion order is %s", name, it.Index(), it.Value(), i, short(order))
			}
			i++
		}
		if i != len(order) {
			c.Fail("order", "iterator-length", "%s iterator yields %d of %d members", name, i, len(order))
		}
		// ... and backwards from the end the same members in reverse, no more
		i = len(order) - 1
		for it.End(); it.Prev(); i-- {
			if i < 0 || !identical(it.Value(), order[i]) || it.Index() != i {
				c.Fail("order", "iterator-backward", "%s iterator, walking back from the end, yields (%d,%v) where insertion order has position %d of %s", name, it.Index(), it.Value(), i, short(order))
			}
		}
		if i != -1 {
			c.Fail("order", "iterator-backward-length", "%s iterator, walking back from the end, stops %d members early", name, i+1)
		}
		i = 0
		s.Each(func(idx int, v T) {
			if i >= len(order) || !identical(v, order[i]) || idx != i {
				c.Fail("order", "each", "%s.Each visits (%d,%v) at step %d, insertion order is %s", name, idx, v, i, short(order))
			}
			i++
		})
		if i != len(order) {
			c.Fail("order", "each-length", "%s.Each visits %d of %d members", name, i, len(order))
		}
		for _, v := range order {
			if f, ok := any(v).(float64); ok && (f != f || f > 1e308 || f < -1e308) {
				c.Count("obs:linked-order", 1)
				return // encoding/json refuses NaN and the infinities
			}
		}
		c.Begin(name, "ToJSON")
		data, err := s.ToJSON()
		if err != nil {
			c.Fail("order", "tojson-error", "%s.ToJSON() returned error %v", name, err)
		}
		var back []T
		if err := json.Unmarshal(data, &back); err != nil {
			c.Fail("order", "tojson-unreadable", "%s.ToJSON() = %s is not a JSON array of the element type: %v", name, data, err)
		}
		if !eqSlices(back, order) {
			c.Fail("order", "tojson", "%s.ToJSON() = %s, insertion order is %s", name, data, short(order))
		}
		c.Count("obs:linked-order", 1)
		c.State(core.Mix(2, hashVals(order)))
	}
	check()
	r := c.R
	steps := r.Range(20, 200)
	if len(d.Alpha) >= 200 {
		steps = 1200
	}
	for st := 0; st < steps; st++ {
		if r.Intn(4) == 0 {
			v := d.AnyVal(r)
			c.Begin(name, "Contains", v)
			if got, want := s.Contains(v), slices.Contains(order, v); got != want {
				c.Fail("contains", "", "%s.Contains(%v) = %v, want %v", name, v, got, want)
			}
			check()
			continue
		}
		switch r.Pick(50, 30, 8, btoi(len(d.Alpha) < 200)*2) {
		case 0:
			k := varCountBig(r) // (occasionally 63..1025 values: batch paths)
			vs := make([]T, k)
			for i := range vs {
				if i > 0 && r.Chance(1, 3) {
					vs[i] = vs[r.Intn(i)] // duplicate inside one Add
				} else {
					vs[i] = d.Val(r)
				}
			}
			c.Begin(name, "Add", vs)
			s.Add(vs...)
			add(vs)
		case 1:
			k := varCountBig(r)
			vs := make([]T, k)
			for i := range vs {
				if len(order) > 0 && r.Chance(2, 3) {
					vs[i] = order[r.Intn(len(order))]
				} else {
					vs[i] = d.AnyVal(r)
				}
			}
			c.Begin(name, "Remove", vs)
			s.Remove(vs...)
			for _, v := range vs {
				if i := slices.Index(order, v); i >= 0 {
					order = slices.Delete(order, i, i+1)
				}
			}
		case 2:
			if len(order) == 0 {
				continue
			}
			v := order[r.Intn(len(order))]
			if v != v {
				continue // NaN: not removable
			}
			c.Begin(name, "Remove", []T{v})
			s.Remove(v)
			order = slices.Delete(order, slices.Index(order, v), slices.Index(order, v)+1)
			c.Begin(name, "Add", []T{v})
			s.Add(v)
			order = append(order, v)
			c.Count("linked:reinsert", 1)
		default:
			c.Begin(name, "Clear")
			s.Clear()
			order = nil
		}
		check()
	}
	c.ObserveNow()
	check()
	c.Nontrivial()
}

func runC09(c *core.Ctx) {
	if c.Index < 4 {
		c.Only = func(kind string) bool { return kind == "order" || kind == "keys" || kind == "size" }
		runHugeHash(c, []int{1, 4}[c.Index%2]) // insertion order beyond 4096 entries, across mass removal and Clear
		return
	}
	c.SetGaps((c.Index/4)%2 == 1)
	if c.Index%97 == 11 { // hundreds of live keys: removal positions deep inside a long order list
		c.Count("linked:wide-cases", 1)
		if c.Index%2 == 0 {
			runLinkedMapOrder(c, IntDom(c.R.Range(200, 600)))
		} else {
			runLinkedSetOrder(c, IntDom(c.R.Range(200, 600)))
		}
		return
	}
	if c.Index%23 == 5 {
		// float members/keys: every NaN is a member of its own (== never finds
		// it again), which no removal of OTHER members may disturb
		c.Count("linked:float-cases", 1)
		if c.Index%2 == 0 {
			runLinkedMapOrder(c, FKeyDom(c.R.Range(3, 10)))
		} else {
			runLinkedSetOrder(c, FKeyDom(c.R.Range(3, 10)))
		}
		return
	}
	if c.Index%23 == 7 {
		// struct keys/members that carry Equal/Compare/Less/IsZero/Hash methods
		// disagreeing with ==: the table and the order list must both go by ==
		c.Count("linked:struct-cases", 1)
		if c.Index%2 == 0 {
			runLinkedMapOrder(c, StructDom(c.R.Range(4, 14)))
		} else {
			runLinkedSetOrder(c, StructDom(c.R.Range(4, 14)))
		}
		return
	}
	switch c.Index % 4 {
	case 0:
		runLinkedMapOrder(c, IntDom(c.R.Range(3, 12)))
	case 1:
		runLinkedMapOrder(c, StrDom(c.R.Range(3, 14)))
	case 2:
		runLinkedSetOrder(c, IntDom(c.R.Range(3, 12)))
	default:
		runLinkedSetOrder(c, StrDom(c.R.Range(3, 14)))
	}
}

func init() {
	core.Register(&core.Prop{
		ID:    "C09",
		Title: "Linked hash containers iterate in insertion order",
		Cases: func(tier string) int { return tierN(tier, 40000, 2400000) },
		Run:   runC09,
		Rule: "random Put/Add/Remove/Clear histories with repeated, removed and re-inserted keys (duplicates inside one Add, remove-then-reinsert) on LinkedHashMap and LinkedHashSet over small int and string alphabets; " +
			"after every call Keys(), Values() (aligned), a full iterator walk, the Each callback order and the key/element order of ToJSON() (token decoder) are compared with a slice of live keys in insertion order. " +
			"Every case is non-trivial (>= 20 mutating calls); distinct = distinct hash of the call list.",
		Floors: func(tier string, m map[string]int64) []string {
			f := &floorCheck{m: m}
			f.atLeast("obs:linked-order", 200000)
			f.atLeast("linked:struct-cases", 500)
			f.atLeast("linked:put-present", 10000)
			f.atLeast("linked:remove-present", 10000)
			f.atLeast("linked:reinsert", 5000)
			f.atLeast("linked:float-cases", 500)
			f.atLeast("obs:huge-hash-cases", 4)
			return f.missing
		},
		Files: []string{"maps/linkedhashmap/linkedhashmap.go", "maps/linkedhashmap/iterator.go", "maps/linkedhashmap/serialization.go", "sets/linkedhashset/linkedhashset.go", "sets/linkedhashset/iterator.go"},
		Assumptions: []string{
			"integer keys appear in ToJSON as the decimal text encoding/json uses for integer map keys",
			"a clean run says the property held on the executed histories only",
		},
	})
}
